#!/bin/sh
# run the baseline suite and report whether all 59 stable tests still pass
cd /repo && /venv/bin/python -m pytest -ra -q -p no:cacheprovider --timeout=900 --continue-on-collection-errors --junitxml=/tmp/sx_base.xml >/dev/null 2>&1
/venv/bin/python - <<'PY'
import json, xml.etree.ElementTree as ET
base = set(json.load(open('/root/.vp/BASELINE.json'))['stable_pass'])
ok = set()
for tc in ET.parse('/tmp/sx_base.xml').getroot().iter('testcase'):
    if not any(ch.tag in ('failure','error','skipped') for ch in tc):
        ok.add(f"{tc.get('classname')}::{tc.get('name')}")
miss = sorted(base - ok)
print("baseline:", len(base & ok), "of", len(base), "pass; extra passing:", len(ok - base))
if miss: print("MISSING:", miss)
PY
rm -f /tmp/sx_base.xml
