#!/bin/sh
# tools/refactor_eval.sh <patch file> <property> [<property> ...]
# Applies a behaviour-preserving refactoring (DESIGN.md 8.8) to a scratch copy of /repo/ladim and runs the quick checks of the
# named properties against it; every one must exit 0 (1 = false alarm, 2 = the shadow cannot execute the new idiom).
PATCH=$1; shift
D=$(mktemp -d /tmp/sxref.XXXXXX)
cp -r /repo/ladim "$D/ladim"
( cd "$D" && patch -p1 -s < "$PATCH" >/dev/null 2>&1 ) || { echo "refactoring=$PATCH patch-does-not-apply"; rm -rf "$D"; exit 0; }
for P in "$@"; do
  timeout 2400 /verif/check "$P" --repo "$D" --no-evidence > "$D/log" 2>&1; rc=$?
  echo "refactoring=$(basename $(dirname $(dirname $PATCH)))/$(basename $PATCH) check=$P rc=$rc $(grep -E 'tier=' "$D/log" | sed -e 's/.*violations=/violations=/' | cut -c1-60)"
  [ $rc -ne 0 ] && grep -E "clause=|Unsupported|inconclusive" "$D/log" | head -3 | cut -c1-400
done
rm -rf "$D"
exit 0
