#!/usr/bin/env python3
"""Systematic mutation campaign (development aid, not a registered check).

Generates single-point AST mutants of /repo/ladim/*.py, keeps those that still pass the
baseline tests of the touched area, and runs the quick checks of the properties anchored in
that file (cheapest first) against a scratch copy.  Survivors point at blind spots (or at
equivalent mutants).  Output: JSON lines in <out> (default /verif/mutation/report.jsonl).

  tools/mutation_campaign.py --files tracker.py,state.py --max 40 --seed 1
"""
import argparse
import ast
import copy
import json
import os
import random
import shutil
import subprocess
import sys
import tempfile
import time
from pathlib import Path

REPO = Path("/repo")
VERIF = Path(__file__).resolve().parent.parent

CHECKS = {  # file -> checks ordered by cost
    "state.py": ["C05", "C06"],
    "timekeeper.py": ["C13", "C07", "C03"],
    "tracker.py": ["C01", "C11", "C15", "C17", "C09"],
    "sample.py": ["C16"],
    "release.py": ["C20", "C04", "C08"],
    "out_netcdf.py": ["C07", "C06", "C08"],
    "warm_start.py": ["C08"],
    "model.py": ["C19", "C07", "C08"],
    "main.py": ["C07", "C19"],
    "configure.py": ["C18", "C08"],
    "ROMS.py": ["C12", "C20", "C16", "C03", "C17", "C02", "C09", "C14"],
}
TESTS = {
    "state.py": ["test/test_state.py"], "timekeeper.py": ["test/test_timekeeper.py"], "tracker.py": ["test/test_tracker.py"],
    "sample.py": ["test/test_sample.py"], "release.py": [], "out_netcdf.py": ["test/test_output.py"], "warm_start.py": [],
    "model.py": [], "main.py": [], "configure.py": [],
    "ROMS.py": ["test/test_ROMS_vertical.py", "test/test_forcing_ROMS.py", "test/test_sdepth.py", "test/test_grid_ROMS.py"],
}
SKIP_FUNCS = {"script", "LadimLogFormatter", "format", "mylen", "sample2D2", "sample2D_masked", "sample2DUV", "init_output", "RKstep0", "onland", "lonlat", "field"}


class Mutator(ast.NodeTransformer):
    """applies exactly the k-th applicable mutation"""

    def __init__(self, target):
        self.target = target
        self.count = 0
        self.desc = None
        self.func = []

    def _hit(self, desc, node):
        if any(f in SKIP_FUNCS for f in self.func):
            return False
        self.count += 1
        if self.count - 1 == self.target:
            self.desc = f"{'.'.join(self.func) or '<module>'}:{getattr(node, 'lineno', '?')}: {desc}"
            return True
        return False

    def visit_FunctionDef(self, node):
        self.func.append(node.name)
        self.generic_visit(node)
        self.func.pop()
        return node

    def visit_ClassDef(self, node):
        self.func.append(node.name)
        self.generic_visit(node)
        self.func.pop()
        return node

    def visit_Compare(self, node):
        self.generic_visit(node)
        if len(node.ops) == 1:
            swaps = {ast.Lt: ast.LtE, ast.LtE: ast.Lt, ast.Gt: ast.GtE, ast.GtE: ast.Gt, ast.Eq: ast.NotEq, ast.NotEq: ast.Eq}
            t = type(node.ops[0])
            if t in swaps and self._hit(f"{t.__name__} -> {swaps[t].__name__}", node):
                node = copy.copy(node)
                node.ops = [swaps[t]()]
        return node

    def visit_BinOp(self, node):
        self.generic_visit(node)
        swaps = {ast.Add: ast.Sub, ast.Sub: ast.Add, ast.Mult: ast.Div, ast.Div: ast.Mult, ast.FloorDiv: ast.Div}
        t = type(node.op)
        if t in swaps and not isinstance(node.left, ast.Constant) or (t in swaps and isinstance(node.left, ast.Constant) and not isinstance(node.left.value, str)):
            if self._hit(f"{t.__name__} -> {swaps[t].__name__}", node):
                node = copy.copy(node)
                node.op = swaps[t]()
        return node

    def visit_BoolOp(self, node):
        self.generic_visit(node)
        t = type(node.op)
        if self._hit(f"{t.__name__} -> {'Or' if t is ast.And else 'And'}", node):
            node = copy.copy(node)
            node.op = ast.Or() if t is ast.And else ast.And()
        return node

    def visit_Constant(self, node):
        if isinstance(node.value, bool) or node.value is None or isinstance(node.value, str):
            return node
        if isinstance(node.value, int) and abs(node.value) <= 3:
            if self._hit(f"const {node.value} -> {node.value + 1}", node):
                return ast.copy_location(ast.Constant(value=node.value + 1), node)
        elif isinstance(node.value, float) and node.value in (0.5, 0.01, 1.0, 6.0, 2.0):
            if self._hit(f"const {node.value} -> {node.value * 2}", node):
                return ast.copy_location(ast.Constant(value=node.value * 2), node)
        return node

    def _maybe_drop(self, node):
        if self._hit(f"delete statement `{ast.unparse(node)[:60]}`", node):
            return ast.copy_location(ast.Pass(), node)
        return node

    def visit_Assign(self, node):
        self.generic_visit(node)
        if isinstance(node.targets[0], (ast.Subscript, ast.Attribute)):
            return self._maybe_drop(node)
        return node

    def visit_AugAssign(self, node):
        self.generic_visit(node)
        return self._maybe_drop(node)

    def visit_Expr(self, node):
        self.generic_visit(node)
        if isinstance(node.value, ast.Call) and "logger" not in ast.unparse(node) and "logging" not in ast.unparse(node):
            return self._maybe_drop(node)
        return node

    def visit_UnaryOp(self, node):
        self.generic_visit(node)
        if isinstance(node.op, (ast.Not, ast.Invert, ast.USub)) and self._hit(f"drop {type(node.op).__name__}", node):
            return node.operand
        return node


def count_mutants(src):
    m = Mutator(-1)
    m.visit(ast.parse(src))
    return m.count


def make_mutant(src, k):
    m = Mutator(k)
    tree = m.visit(ast.parse(src))
    ast.fix_missing_locations(tree)
    return ast.unparse(tree), m.desc


def run(cmd, cwd=None, timeout=1800, env=None):
    """run in an own process group, so that a time-out also removes the worker processes of a check"""
    import signal

    p = subprocess.Popen(cmd, cwd=cwd, stdout=subprocess.PIPE, stderr=subprocess.STDOUT, text=True, env=env, start_new_session=True)
    try:
        out, _ = p.communicate(timeout=timeout)
        return p.returncode, out
    except subprocess.TimeoutExpired:
        try:
            os.killpg(p.pid, signal.SIGKILL)
        except ProcessLookupError:
            pass
        p.wait()
        return 124, "timeout"


def main():
    ap = argparse.ArgumentParser()
    ap.add_argument("--files", default=",".join(CHECKS))
    ap.add_argument("--max", type=int, default=30, help="mutants per file")
    ap.add_argument("--seed", type=int, default=1)
    ap.add_argument("--out", default=str(VERIF / "mutation" / "report.jsonl"))
    a = ap.parse_args()
    Path(a.out).parent.mkdir(parents=True, exist_ok=True)
    rnd = random.Random(a.seed)
    for fname in a.files.split(","):
        src = (REPO / "ladim" / fname).read_text()
        n = count_mutants(src)
        ks = list(range(n))
        rnd.shuffle(ks)
        done = 0
        for k in ks:
            if done >= a.max:
                break
            try:
                msrc, desc = make_mutant(src, k)
            except Exception as exc:  # noqa
                continue
            if desc is None or msrc == ast.unparse(ast.parse(src)):
                continue
            d = Path(tempfile.mkdtemp(prefix="sxmc_"))
            try:
                shutil.copytree(REPO / "ladim", d / "ladim")
                shutil.copytree(REPO / "test", d / "test")
                for extra in ("pytest.ini", "pyproject.toml"):
                    if (REPO / extra).exists():
                        shutil.copy(REPO / extra, d / extra)
                (d / "ladim" / fname).write_text(msrc)
                rec = dict(file=fname, k=k, mutation=desc, t=time.strftime("%H:%M:%S"))
                rc, out = run(["/venv/bin/python", "-c", "import ladim." + fname[:-3]], cwd=d, timeout=120)
                if rc != 0:
                    rec["result"] = "does-not-import"
                else:
                    tests = TESTS.get(fname, [])
                    killed_by_tests = False
                    if tests:
                        rc, out = run(["/venv/bin/python", "-m", "pytest", "-q", "-x", "-p", "no:cacheprovider", "--timeout=300", *tests], cwd=d, timeout=900,
                                      env=dict(os.environ, NUMBA_DISABLE_JIT="1"))
                        base_fail = "test_grid_ROMS" in out and "passed" in out  # grid_ROMS data tests fail at baseline
                        # compare with baseline outcome of the same files
                        rc0, out0 = BASE.setdefault(fname, run(["/venv/bin/python", "-m", "pytest", "-q", "-p", "no:cacheprovider", "--timeout=300", *tests], cwd=REPO, timeout=900,
                                                               env=dict(os.environ, NUMBA_DISABLE_JIT="1")))
                        rc1, out1 = run(["/venv/bin/python", "-m", "pytest", "-q", "-p", "no:cacheprovider", "--timeout=300", *tests], cwd=d, timeout=900,
                                        env=dict(os.environ, NUMBA_DISABLE_JIT="1"))
                        killed_by_tests = _summary(out1) != _summary(out0)
                    if killed_by_tests:
                        rec["result"] = "killed-by-baseline-tests"
                    else:
                        done += 1
                        rec["result"] = "survived"
                        for c in CHECKS[fname]:
                            t0 = time.time()
                            rc, out = run([str(VERIF / "check"), c, "--repo", str(d), "--no-evidence"], cwd=VERIF, timeout=2400)
                            rec.setdefault("checks", []).append(dict(check=c, rc=rc, s=round(time.time() - t0, 1)))
                            if rc == 1:
                                rec["result"] = f"killed-by-{c}"
                                break
                            if rc not in (0, 1) and rec["result"] == "survived":
                                rec["result"] = f"inconclusive-{c}"
                with open(a.out, "a") as f:
                    f.write(json.dumps(rec) + "\n")
                print(json.dumps(rec), flush=True)
            finally:
                shutil.rmtree(d, ignore_errors=True)


BASE = {}


def _summary(out):
    import re

    m = re.findall(r"(\d+) (passed|failed|error|errors)", out)
    return tuple(sorted(m))


if __name__ == "__main__":
    main()
