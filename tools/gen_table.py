#!/usr/bin/env python3
"""Regenerate the table of DESIGN.md 8.5 from the summary lines of a quick and a thorough run.
  tools/gen_table.py <quick log> <thorough summary> [--write]   (replaces the table rows in DESIGN.md)"""
import ast, re, sys
from pathlib import Path

V = Path(__file__).resolve().parent.parent


def parse(path):
    out = {}
    for ln in Path(path).read_text().splitlines():
        m = re.search(r"(C\d\d) tier=(\w+): scenarios=(\d+) paths=(\d+) obligations=(\d+).*?conformance=(\d+/\d+) wall=([\d.]+)s", ln)
        if m:
            out[m.group(1)] = dict(tier=m.group(2), scen=m.group(3), paths=m.group(4), obl=m.group(5), conf=m.group(6), wall=round(float(m.group(7))))
    return out


def nclauses(pid):
    tree = ast.parse((V / "harness" / f"{pid.lower()}.py").read_text())
    for node in tree.body:
        if isinstance(node, ast.Assign) and getattr(node.targets[0], "id", "") == "CLAUSES":
            return len(node.value.keys)
    return 0


q, t = parse(sys.argv[1]), parse(sys.argv[2])
rows = []
for i in range(1, 21):
    pid = f"C{i:02d}"
    a, b = q.get(pid), t.get(pid)
    fa = f"{a['scen']} / {a['paths']} / {a['obl']} / {a['wall']} s" if a else "-"
    fb = f"{b['scen']} / {b['paths']} / {b['obl']} / {b['wall']} s" if b else "-"
    rows.append(f"| {pid} | {nclauses(pid)} | {fa} | {fb} | {a['conf'] if a else '-'} |")
table = "\n".join(rows)
print(table)
print("quick total wall:", sum(v["wall"] for v in q.values()), "s; thorough total wall:", sum(v["wall"] for v in t.values()), "s")
if "--write" in sys.argv:
    d = (V / "DESIGN.md").read_text()
    lines = d.splitlines()
    idx = [n for n, ln in enumerate(lines) if re.match(r"\| C\d\d \| \d+ \| \d+ / ", ln)]
    assert idx and idx[-1] - idx[0] + 1 == len(idx) == 20, idx
    lines[idx[0]:idx[-1] + 1] = rows
    (V / "DESIGN.md").write_text("\n".join(lines) + "\n")
