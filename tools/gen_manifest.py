#!/usr/bin/env python3
"""Regenerate MANIFEST.json from the harness modules that exist (keeps it valid at all times)."""
import importlib, json, sys
from pathlib import Path

V = Path(__file__).resolve().parent.parent
sys.path.insert(0, str(V))
props = [json.loads(l) for l in (V / "properties.jsonl").read_text().splitlines() if l.strip()]
NA = json.loads((V / "tools" / "not_applicable.json").read_text()) if (V / "tools" / "not_applicable.json").exists() else {}
checks, na = [], []
for p in props:
    pid = p["id"]
    f = V / "harness" / f"{pid.lower()}.py"
    if not f.exists() or pid in NA:
        na.append(dict(property_id=pid, reason=NA.get(pid, "check not built yet (work in progress); nothing is claimed for this property")))
        continue
    src = f.read_text()
    ns = {}
    # read metadata without importing z3 etc.
    import ast
    tree = ast.parse(src)
    meta = {}
    for node in tree.body:
        if isinstance(node, ast.Assign) and len(node.targets) == 1 and isinstance(node.targets[0], ast.Name) and node.targets[0].id in ("BOUNDS", "OUTSIDE", "ASSUMES", "LEVEL_TEXT", "TECHNIQUE", "DESIGN_REF"):
            try:
                meta[node.targets[0].id] = ast.literal_eval(node.value)
            except Exception:
                pass
    doc = ast.get_docstring(tree) or ""
    checks.append(dict(
        property_id=pid,
        quick_cmd=f"./check {pid} --tier quick",
        thorough_cmd=f"./check {pid} --tier thorough",
        evidence_file=f"/verif/evidence/{pid}.json",
        replay_cmd_template=f"./check {pid} --replay {{path}}",
        engine="sx",
        level_claimed=dict(
            category="model_checking",
            text=meta.get("LEVEL_TEXT") or ("Bounded symbolic verification: the repository's own functions are executed on SMT terms (z3), every clause is an SMT obligation "
                  "`path condition and not claim`; unsat = holds for every input inside the stated bound, sat = concrete counterexample replayed on the real code. " + doc.split("\n")[0]),
            design_ref=meta.get("DESIGN_REF", f"DESIGN.md section 4 {pid}"),
        ),
        level_note="Bounds quick: " + meta.get("BOUNDS", {}).get("quick", "") + " | thorough: " + meta.get("BOUNDS", {}).get("thorough", "") +
                   " | Assumes: " + "; ".join(meta.get("ASSUMES", [])) + " | Outside the claim: " + str(meta.get("OUTSIDE", "")) +
                   " | Trusted: z3, the SX shadow loader/symbolic numpy/stubs, real-number semantics for floats, numba preserving Python semantics of the kernels.",
        technique=meta.get("TECHNIQUE", "symbolic execution of the real Python source over z3 terms; SMT decides each obligation; counterexamples replayed on the real modules"),
    ))
man = dict(
    version=1,
    setup_cmd="./setup.sh",
    hooks=dict(guard="LADIM2_VERIF", enable="no source hooks: files, RNG, pandas.read_csv and numba are replaced at import level by the shadow loader (checks export LADIM2_VERIF=1 for uniformity)",
               baseline_off_cmd="cd /repo && /venv/bin/python -m pytest -ra -q -p no:cacheprovider --timeout=900 --continue-on-collection-errors", source_commits=[], add_only=True),
    engines=[dict(name="sx", path="/verif/sx", serves_properties=[c["property_id"] for c in checks],
                  kind_free_text="shadow execution of /repo/ladim/*.py source over z3 terms (symbolic numpy, stubbed netCDF4/read_csv/numba), DFS path exploration complete inside the bound, fresh-solver obligations, replay on the real modules")],
    checks=checks,
    not_applicable=na,
    notes="All checks rebuild their encoding from /repo's working tree on every run (the source text is exec'd). Exit 0 held / 1 VIOLATION / 2 inconclusive or harness error. known findings: /verif/known_findings.json.",
)
(V / "MANIFEST.json").write_text(json.dumps(man, indent=1))
print("checks:", [c["property_id"] for c in checks], "not_applicable:", len(na))
