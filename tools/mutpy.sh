#!/bin/sh
# tools/mutpy.sh <property> <file under ladim/> <python expr transforming source s> [check args]
P=$1; F=$2; X=$3; shift 3
D=$(mktemp -d /tmp/sxmut.XXXXXX)
cp -r /repo/ladim "$D/ladim"
python3 - "$D/ladim/$F" "$X" <<'PY'
import sys
p, x = sys.argv[1], sys.argv[2]
s = open(p).read()
t = eval(x)
assert t != s, "MUTATION DID NOT APPLY"
open(p, "w").write(t)
PY
[ $? -eq 0 ] || { rm -rf "$D"; exit 3; }
diff /repo/ladim/$F "$D/ladim/$F" | head -8
/verif/check "$P" --repo "$D" --no-evidence "$@" | grep -v "^  clause" | tail -5
rm -rf "$D"
