#!/bin/sh
# tools/seed_run.sh <seed dir under /verif/seeded> <property> [extra check args]
# Applies a stored seeded change to a scratch copy of /repo/ladim, runs the check of <property> against it, removes the copy.
# Prints the summary line and "rc=<exit>"; used for the regression matrix of DESIGN.md 8.4 (tools/seed_matrix.sh runs all).
S=$1; P=$2; shift 2
D=$(mktemp -d /tmp/sxseed.XXXXXX)
cp -r /repo/ladim "$D/ladim"
( cd "$D" && patch -p1 -s < "/verif/seeded/$S/patch.diff" >/dev/null 2>&1 ) || { echo "seed=$S check=$P patch-does-not-apply (the tree has moved on: verified at the repo commit named in meta.json)"; rm -rf "$D"; exit 0; }
timeout 2400 /verif/check "$P" --repo "$D" --no-evidence "$@" > "$D/log" 2>&1; rc=$?
grep -E "tier=" "$D/log" | cut -c1-200
echo "seed=$S check=$P rc=$rc"
rm -rf "$D"
exit 0
