#!/bin/sh
# tools/seed_eval.sh <Cnn> <worktree> [extra check args]: verify a seeded change and run the check against it
P=$1; WT=$2; shift 2
cd "$WT" || exit 3
git apply -R patch.diff 2>/dev/null; git diff --quiet -- ladim || { echo "worktree not clean after reverse"; }
NUMBA_DISABLE_JIT=1 timeout 600 /venv/bin/python demo.py >/tmp/seed_demo_clean.log 2>&1; RC0=$?
git apply patch.diff || { echo "patch does not apply"; exit 3; }
NUMBA_DISABLE_JIT=1 timeout 600 /venv/bin/python demo.py >/tmp/seed_demo_patched.log 2>&1; RC1=$?
/venv/bin/python -m pytest -q -p no:cacheprovider --timeout=900 --continue-on-collection-errors --junitxml=/tmp/seed_junit.xml test >/dev/null 2>&1
BASE=$(/venv/bin/python - <<'PY'
import json, xml.etree.ElementTree as ET
base = set(json.load(open('/root/.vp/BASELINE.json'))['stable_pass'])
ok = set()
for tc in ET.parse('/tmp/seed_junit.xml').getroot().iter('testcase'):
    if not any(ch.tag in ('failure','error','skipped') for ch in tc):
        ok.add(f"{tc.get('classname')}::{tc.get('name')}")
print(f"{len(base & ok)}/{len(base)}")
PY
)
echo "demo unpatched rc=$RC0 patched rc=$RC1 baseline=$BASE"
cd /verif && timeout 1500 ./check "$P" --repo "$WT" --no-evidence "$@" > /tmp/seed_check.log 2>&1; RCC=$?
grep -E "^VIOLATION|^PROBLEM|tier=" /tmp/seed_check.log | cut -c1-260 | head -6
echo "check rc=$RCC"
