#!/bin/sh
# tools/mutant.sh <property> <file under ladim/> <sed-expression> [extra check args]
# Copies /repo to a scratch dir, applies the sed mutation, runs the check against the copy, removes the copy.
P=$1; F=$2; X=$3; shift 3
D=$(mktemp -d /tmp/sxmut.XXXXXX)
cp -r /repo/ladim "$D/ladim"
sed -i "$X" "$D/ladim/$F"
if diff -q /repo/ladim/$F "$D/ladim/$F" >/dev/null; then echo "MUTATION DID NOT APPLY"; rm -rf "$D"; exit 3; fi
diff /repo/ladim/$F "$D/ladim/$F" | head -6
/verif/check "$P" --repo "$D" --no-evidence "$@" | grep -v "^  clause" | tail -8
rc=$?
rm -rf "$D"
