#!/bin/sh
# tools/seed_matrix.sh [out]: every stored seeded change against the quick check of the property it breaks (expects rc=1 everywhere)
OUT=${1:-/verif/seeded/matrix.txt}
: > "$OUT"
for d in /verif/seeded/C*/; do
  s=$(basename "$d"); p=${s%%-*}
  /verif/tools/seed_run.sh "$s" "$p" | tail -1 >> "$OUT"
done
grep -c "rc=1" "$OUT"; grep -v "rc=1" "$OUT"
