"""Build ROMS-layout grid/forcing files (stub registry in SymWorld, real NetCDF in RealWorld)."""
REFSTR = "2000-01-01 00:00:00"
REFSEC = 946684800


def grid_vars(L, M, N, *, h, mask, pm, pn, lon=None, lat=None, hc=10, Cs_r=None, Cs_w=None, Vtransform=None):
    """L = xi_rho, M = eta_rho.  2-D inputs are nested lists [eta][xi]."""
    if lon is None:
        lon = [[4 + 2 * i for i in range(L)] for j in range(M)]
    if lat is None:
        lat = [[60 + j / 4 for i in range(L)] for j in range(M)]
    if Cs_r is None:
        Cs_r = [-1 + (k + 0.5) / N for k in range(N)]
    if Cs_w is None:
        Cs_w = [-1 + k / N for k in range(N + 1)]
    dims = dict(xi_rho=L, eta_rho=M, xi_u=L - 1, eta_u=M, xi_v=L, eta_v=M - 1, s_rho=N, s_w=N + 1)
    V = dict(
        h=(("eta_rho", "xi_rho"), h),
        mask_rho=(("eta_rho", "xi_rho"), mask),
        pm=(("eta_rho", "xi_rho"), pm),
        pn=(("eta_rho", "xi_rho"), pn),
        lon_rho=(("eta_rho", "xi_rho"), lon),
        lat_rho=(("eta_rho", "xi_rho"), lat),
        angle=(("eta_rho", "xi_rho"), [[0] * L for _ in range(M)]),
        hc=((), hc),
        Cs_r=(("s_rho",), Cs_r),
        Cs_w=(("s_w",), Cs_w),
    )
    if Vtransform is not None:
        V["Vtransform"] = ((), Vtransform, dict(_datatype="i4"))
    return dims, V


def forcing_vars(times_sec, u, v, extra=None, scale=None, offsets=None):
    """times_sec: seconds since REFSTR per frame; u[t][k][eta][xi_u], v[t][k][eta_v][xi]; extra: {name: field[t][k][eta][xi]}"""
    dims = dict(ocean_time=len(times_sec))
    V = dict(
        ocean_time=(("ocean_time",), list(times_sec), dict(units=f"seconds since {REFSTR}")),
        u=(("ocean_time", "s_rho", "eta_u", "xi_u"), u, {}),
        v=(("ocean_time", "s_rho", "eta_v", "xi_v"), v, {}),
    )
    for name, f in (extra or {}).items():
        V[name] = (("ocean_time", "s_rho", "eta_rho", "xi_rho"), f, {})
    for name, sf in (scale or {}).items():
        V[name][2]["scale_factor"] = sf
        if offsets is not False and (offsets or {}).get(name, 0) is not None:  # offsets=False / {name: None}: no add_offset attribute at all (legal CF)
            V[name][2]["add_offset"] = (offsets or {}).get(name, 0)
    return dims, V


def write(W, path, gspec, fspec=None):
    dims, V = dict(gspec[0]), dict(gspec[1])
    if fspec is not None:
        dims.update(fspec[0])
        V.update(fspec[1])
    W.nc_file(path, dims, V)
