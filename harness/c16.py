"""C16 lon/lat <-> grid coordinates — real sample.sample2D, sample.bilin_inv, ROMS Grid.xy2ll/ll2xy."""
from harness import romsfile

PROPERTY = "C16"
CLAUSES = {
    "no-crash": "the functions return without exception on legal input",
    "bilinear-exact": "sample2D reproduces a + b x + c y + d x y exactly and is the bilinear (convex) combination of the four corner values",
    "masked": "masked nodes get weight 0 and the rest renormalise; all four masked gives undef_value",
    "outside-value": "points outside the grid get the requested substitute value, for every value including 0.0; inside points are unaffected",
    "outside-error": "with no substitute value an outside point raises ValueError and inside-only input does not",
    "newton-step": "on any non-degenerate affine coordinate grid one Newton step of bilin_inv from its initial guess lands exactly on the point (axis order, Jacobian, update formula)",
    "roundtrip": "ll2xy(xy2ll(x, y)) returns (x, y), or a point whose lon/lat agree with the given ones within the solver tolerance (loop stopped at its initial guess)",
    "release-lonlat": "a release given by lon/lat starts at the grid position whose interpolated lon/lat are the given ones (to the solver tolerance)",
    "output-lonlat": "lon/lat in every output record are the bilinear interpolation of the grid coordinates at the X, Y of the same record",
}
BOUNDS = {
    "quick": "sample2D: 3x3 and 4x3 fields, 2 points, all values/masks/positions/substitute values symbolic; bilin_inv: symbolic affine coefficients on a 4x5 array (maxiter=1); round trip: 4 concrete affine grids (axis-aligned, rotated, sheared, axis-swapped) x 2 subgrids on a 7x6 grid, every position of the valid region symbolic, default maxiter; round trip on piecewise affine (kinked) grids 9x5 and 5x9, every position symbolic",
    "thorough": "12 affine grids incl. anisotropic and fine (0.01 deg) ones, 3 subgrids; kinked grids 8x6 and 6x8 as well",
}
ASSUMES = ["affine coordinate grids stand for 'rotated' grids; with concrete coefficients every query of the default-maxiter run is linear"]
OUTSIDE = "convergence of the Newton iteration on genuinely curvilinear (polar-stereographic) grids: iterated rational maps composed with trigonometry are out of reach; not claimed"
L, M = 7, 6


def affine_family(tier):
    fam = [
        ("aligned", (4, W_(3, 100), 0), (60, 0, W_(2, 100))),
        ("rotated", (4, W_(3, 100), -W_(4, 100)), (60, W_(2, 100), W_(15, 1000))),
        ("sheared", (10, W_(1, 10), W_(5, 100)), (-30, 0, W_(1, 20))),
        ("swapped", (0, 0, W_(1, 10)), (50, -W_(1, 10), 0)),
    ]
    if tier != "quick":
        fam += [
            ("fine", (5, W_(1, 100), W_(1, 1000)), (70, -W_(1, 1000), W_(1, 100))),
            ("coarse", (-20, 1, W_(1, 2)), (10, -W_(1, 2), 1)),
            ("aniso", (4, W_(5, 100), 0), (60, 0, W_(1, 100))),
            ("rot345", (4, W_(3, 50), -W_(4, 50)), (60, W_(4, 50), W_(3, 50))),
            ("mirror", (4, -W_(3, 100), 0), (60, 0, W_(2, 100))),
            ("shear2", (4, W_(3, 100), W_(3, 100)), (60, 0, W_(2, 100))),
            ("rot-fine", (4, W_(12, 1000), -W_(5, 1000)), (60, W_(5, 1000), W_(12, 1000))),
            ("big", (100, 2, -1), (-60, 1, 2)),
        ]
    return fam


def W_(a, b):
    from fractions import Fraction

    return Fraction(a, b)


def scenarios(tier):
    q = tier == "quick"
    out = []
    for shape in ((3, 3), (3, 4)):
        for mode in ("plain", "masked", "outside", "outside-masked"):
            out.append(dict(name=f"sample2D-{shape[0]}x{shape[1]}-{mode}", fn="sample", params=dict(jmax=shape[0], imax=shape[1], mode=mode), cost=10, lazy_recip="masked" in mode))
    out.append(dict(name="newton-step", fn="newton", params={}, cost=5))
    subs = [None, [2, 6, 1, 5]] + ([] if q else [[1, 5, 2, 5]])
    for k, (name, _, _) in enumerate(affine_family(tier)):
        for sub in subs:
            out.append(dict(name=f"roundtrip-{name}-sub{'full' if sub is None else '_'.join(map(str, sub))}", fn="roundtrip", params=dict(fam=k, sub=sub, tier=tier), cost=10))
    # piecewise affine ("kinked") coordinate grids, wide and tall: the interpolant differs from cell to cell, so the cell the iteration
    # works in matters (on an affine grid every cell gives the same inverse); each cell is affine, so the exact iteration lands on the
    # point as soon as it works in the right cell and every query stays linear
    for shape in ((9, 5), (5, 9)) + (() if q else ((8, 6), (6, 8))):
        out.append(dict(name=f"roundtrip-kinked-{shape[0]}x{shape[1]}", fn="roundtrip", params=dict(kinked=True, shape=shape, sub=None, tier=tier), cost=15))
    for k in ((1, 2) if q else (1, 2, 4, 7)):
        out.append(dict(name=f"model-lonlat-{affine_family(tier)[k][0]}", fn="model_lonlat", params=dict(fam=k, tier=tier), cost=10))
        if k == 1:
            out.append(dict(name=f"model-lonlat-swimming-ibm-{affine_family(tier)[k][0]}", fn="model_lonlat", params=dict(fam=k, tier=tier, swim=True), cost=10))
    return out


def model_lonlat(W, p):
    """whole Model: release rows in lon/lat, real ROMS grid with affine coordinates, lon/lat written by the real Output"""
    from harness.common import PLUG, T0, base_config, ovar, run_main

    name, (l0, la, lb), (t0, ta, tb) = affine_family(p["tier"])[p["fam"]]
    tmp = W.scratch()
    lon = [[_q(W, l0 + la * i + lb * j) for i in range(L)] for j in range(M)]
    lat = [[_q(W, t0 + ta * i + tb * j) for i in range(L)] for j in range(M)]
    ones = [[1] * L for _ in range(M)]
    gs = romsfile.grid_vars(L, M, 2, h=[[100] * L for _ in range(M)], mask=ones, pm=[[W.frac(1, 800)] * L for _ in range(M)], pn=[[W.frac(1, 800)] * L for _ in range(M)], lon=lon, lat=lat)
    romsfile.write(W, tmp / "grid.nc", gs)
    # the intended start position (inside the valid region of the full grid), given to the model as lon/lat
    # (the round-trip scenarios quantify over positions; here the plumbing release -> state -> output is the subject)
    x0 = W.frac(27, 10)
    y0 = W.frac(23, 10)
    u = W.real("u", -W.frac(1, 100), W.frac(1, 100))
    lon0 = _q(W, l0) + _q(W, la) * x0 + _q(W, lb) * y0
    lat0 = _q(W, t0) + _q(W, ta) * x0 + _q(W, tb) * y0
    W.table(tmp / "r.rls", ["release_time", "lon", "lat", "Z"], [[W.dt(T0), lon0, lat0, 5]])
    DTs = 600
    ivars = dict(pid=ovar("i4"), X=ovar("f8"), Y=ovar("f8"), lon=ovar("f8"), lat=ovar("f8"))
    cfg = base_config(W, start=T0, stop=T0 + 3 * DTs, dt=DTs, release_file=tmp / "r.rls", u=u,
                      state=dict(instance_variables=dict(lon=float, lat=float), default_values=dict(lon=0, lat=0)),
                      output=dict(filename=str(tmp / "out.nc"), output_period=DTs, instance_variables=ivars))
    cfg["grid"] = dict(module="ladim.ROMS", filename=str(tmp / "grid.nc"))
    cfg["ibm"] = dict()
    if p.get("swim"):
        # an IBM that asks the grid for lon/lat and then lets the particles swim (in-place update of the state arrays)
        cfg["ibm"] = dict(module=str(PLUG / "pibm.py"), swim=W.real("swim", W.frac(1, 100), W.frac(1, 10)))
    # records may be spread over several files (numrec records each)
    R = W.idx(W.int("numrec", 0, 2))
    cfg["output"]["numrec"] = R
    run_main(W, cfg)
    names = ["out.nc"] if R == 0 else [f"out_{i:03d}.nc" for i in range(-(-3 // R))]
    X, Y, LO, LA = [], [], [], []
    shape_ok = True
    for nm in names:
        if not W.nc_exists(tmp / nm):
            shape_ok = False
            continue
        V = W.nc_read(tmp / nm)["vars"]
        ninst = sum(int(c) for c in V["particle_count"] if not W.is_fill(c))
        # every instance variable of a file has one entry per particle instance of that file
        shape_ok = shape_ok and all(len(V[v]) == ninst for v in ("X", "Y", "lon", "lat"))
        X, Y, LO, LA = X + list(V["X"][:ninst]), Y + list(V["Y"][:ninst]), LO + list(V["lon"][:ninst]), LA + list(V["lat"][:ninst])
    W.prove(shape_ok and len(X) == 3 and len(LO) == 3 and not any(W.is_fill(v) for v in LO + LA), "output-lonlat", dict(records=len(X), numrec=R, files=names))
    if not (len(X) == 3 and len(LO) == 3) or any(W.is_fill(v) for v in LO + LA + X + Y):
        return (name, "shape")
    # release: lon/lat interpolated at the start position reproduce the given ones within the tolerance (or the position is exact)
    lonx = _q(W, l0) + _q(W, la) * X[0] + _q(W, lb) * Y[0]
    latx = _q(W, t0) + _q(W, ta) * X[0] + _q(W, tb) * Y[0]
    W.prove(W.any([W.all([W.eq(X[0], x0), W.eq(Y[0], y0)]), W.lt((lonx - lon0) * (lonx - lon0) + (latx - lat0) * (latx - lat0), W.frac(1, 10 ** 7))]), "release-lonlat", dict(grid=name))
    conds = []
    for r in range(min(3, len(X))):
        conds.append(W.eq(LO[r], _q(W, l0) + _q(W, la) * X[r] + _q(W, lb) * Y[r]))
        conds.append(W.eq(LA[r], _q(W, t0) + _q(W, ta) * X[r] + _q(W, tb) * Y[r]))
    W.prove(W.all(conds), "output-lonlat", dict(grid=name))
    return (name,)


def _q(W, f):
    return W.frac(f.numerator, f.denominator) if hasattr(f, "numerator") and not isinstance(f, int) else f


def sample(W, p):
    smp = W.load("ladim.sample")
    jmax, imax, mode = p["jmax"], p["imax"], p["mode"]
    F = [[W.real(f"F{j}{i}") for i in range(imax)] for j in range(jmax)]
    Fa = W.arr_nd(F, "f")
    npts = 2 if mode == "plain" else 1
    if mode.startswith("outside"):
        xs = [W.real(f"x{n}", -2, imax + 1) for n in range(npts)]
        ys = [W.real(f"y{n}", -2, jmax + 1) for n in range(npts)]
    else:
        xs = [W.real(f"x{n}", 0, imax - 1, hi_strict=True) for n in range(npts)]
        ys = [W.real(f"y{n}", 0, jmax - 1, hi_strict=True) for n in range(npts)]
    X, Y = W.arr(xs, "f"), W.arr(ys, "f")

    def inside(n):
        return W.all([W.le(0, xs[n]), W.lt(xs[n], imax - 1), W.le(0, ys[n]), W.lt(ys[n], jmax - 1)])

    def cell(n):
        import math

        if W.symbolic:
            return W.idx(W.core.SN.real(xs[n]).floor()), W.idx(W.core.SN.real(ys[n]).floor())
        return math.floor(xs[n]), math.floor(ys[n])

    if mode == "plain":
        R = W.tolist(smp.sample2D(Fa, X, Y))
        conds = []
        for n in range(npts):
            i, j = cell(n)
            pp, qq = xs[n] - i, ys[n] - j
            conds.append(W.eq(R[n], (1 - pp) * (1 - qq) * F[j][i] + pp * (1 - qq) * F[j][i + 1] + (1 - pp) * qq * F[j + 1][i] + pp * qq * F[j + 1][i + 1]))
        W.prove(W.all(conds), "bilinear-exact")
        # exactness on a + b x + c y + d x y
        # (follows from the corner formula above for any a, b, c, d; one concrete instance is run through the code)
        a, b, c, d = 1, 2, -3, W.frac(1, 2)
        G = W.arr_nd([[a + b * i + c * j + d * i * j for i in range(imax)] for j in range(jmax)], "f")
        R2 = W.tolist(smp.sample2D(G, X, Y))
        W.prove(W.all([W.eq(R2[n], a + b * xs[n] + c * ys[n] + d * xs[n] * ys[n]) for n in range(npts)]), "bilinear-exact", dict(field="a+bx+cy+dxy"))
        # inside-only input with no substitute value must not raise
        W.prove(True, "outside-error")
        return ("plain",)
    if mode == "masked":
        mk = [[W.ite(W.bool(f"m{j}{i}"), 1, 0) for i in range(imax)] for j in range(jmax)]
        undef = W.real("undef", -100, 100)
        R = W.tolist(smp.sample2D(Fa, X, Y, mask=W.arr_nd(mk, "i"), undef_value=undef))
        conds = []
        for n in range(npts):
            i, j = cell(n)
            pp, qq = xs[n] - i, ys[n] - j
            w = [(mk[j][i] * (1 - pp) * (1 - qq), F[j][i]), (mk[j][i + 1] * pp * (1 - qq), F[j][i + 1]), (mk[j + 1][i] * (1 - pp) * qq, F[j + 1][i]), (mk[j + 1][i + 1] * pp * qq, F[j + 1][i + 1])]
            sw = sum(x[0] for x in w)
            num = sum(x[0] * x[1] for x in w)
            # result * sw == num when sw > 0; undef when sw == 0
            conds.append(W.implies(W.lt(0, sw), W.eq(R[n] * sw, num)))
            conds.append(W.implies(W.eq(sw, 0), W.eq(R[n], undef)))
        W.prove(W.all(conds), "masked")
        return ("masked",)
    # outside (optionally together with a mask and an undef value)
    v = W.real("outside_value", -5, 5)
    kw = {}
    mk = None
    if mode == "outside-masked":
        mk = [[W.ite(W.bool(f"m{j}{i}"), 1, 0) for i in range(imax)] for j in range(jmax)]
        undef = W.real("undef", -100, 100)
        kw = dict(mask=W.arr_nd(mk, "i"), undef_value=undef)
    R = W.tolist(smp.sample2D(Fa, X, Y, outside_value=v, **kw))
    conds = []
    skel = []
    for n in range(npts):
        if W.truth(inside(n)):
            i, j = cell(n)
            pp, qq = xs[n] - i, ys[n] - j
            if mk is None:
                conds.append(W.eq(R[n], (1 - pp) * (1 - qq) * F[j][i] + pp * (1 - qq) * F[j][i + 1] + (1 - pp) * qq * F[j + 1][i] + pp * qq * F[j + 1][i + 1]))
            else:
                w = [(mk[j][i] * (1 - pp) * (1 - qq), F[j][i]), (mk[j][i + 1] * pp * (1 - qq), F[j][i + 1]), (mk[j + 1][i] * (1 - pp) * qq, F[j + 1][i]), (mk[j + 1][i + 1] * pp * qq, F[j + 1][i + 1])]
                sw = sum(x[0] for x in w)
                conds.append(W.implies(W.lt(0, sw), W.eq(R[n] * sw, sum(x[0] * x[1] for x in w))))
                conds.append(W.implies(W.eq(sw, 0), W.eq(R[n], undef)))
            skel.append("in")
        else:
            conds.append(W.eq(R[n], v))
            skel.append("out")
    W.prove(W.all(conds), "outside-value", dict(points=skel, mode=mode))
    try:
        smp.sample2D(Fa, X, Y, **kw)
        raised = False
    except ValueError:
        raised = True
    W.prove(raised == ("out" in skel), "outside-error", dict(points=skel, raised=raised))
    return tuple(skel)


def newton(W, p):
    smp = W.load("ladim.sample")
    imax, jmax = 4, 5
    f0, fa, fb = W.real("f0", -180, 180), W.real("fa", -2, 2), W.real("fb", -2, 2)
    g0, ga, gb = W.real("g0", -90, 90), W.real("ga", -2, 2), W.real("gb", -2, 2)
    det = fa * gb - fb * ga
    W.assume(W.any([W.lt(det, 0), W.lt(0, det)]), "non-degenerate affine map")
    F = W.arr_nd([[f0 + fa * i + fb * j for j in range(jmax)] for i in range(imax)], "f")
    G = W.arr_nd([[g0 + ga * i + gb * j for j in range(jmax)] for i in range(imax)], "f")
    xs, ys = W.real("xs", 0, imax - 1), W.real("ys", 0, jmax - 1)
    f, g = f0 + fa * xs + fb * ys, g0 + ga * xs + gb * ys
    # tol = 0: never stop at the initial guess, exactly one step
    x, y = smp.bilin_inv(W.arr([f], "f"), W.arr([g], "f"), F, G, maxiter=1, tol=0)
    W.prove(W.all([W.eq(W.tolist(x)[0], xs), W.eq(W.tolist(y)[0], ys)]), "newton-step")
    return ("newton",)


def roundtrip(W, p):
    from harness.trkcommon import in_valid

    roms = W.load("ladim.ROMS")
    tmp = W.scratch()
    if p.get("kinked"):
        Lk, Mk = p["shape"]
        name = f"kinked-{Lk}x{Mk}"
        ki, kj = Lk - 3, Mk - 3  # kinks two cells before the far edge of either axis

        def flon(i, j):
            return 4 + 2 * i + ((i - ki) if i > ki else 0) + W.frac(1, 10) * j

        def flat(i, j):
            return 60 + W.frac(1, 4) * j + (W.frac(1, 4) * (j - kj) if j > kj else 0) - W.frac(1, 20) * i
    else:
        Lk, Mk = L, M
        name, (l0, la, lb), (t0, ta, tb) = affine_family(p["tier"])[p["fam"]]

        def flon(i, j):
            return _q(W, l0) + _q(W, la) * i + _q(W, lb) * j

        def flat(i, j):
            return _q(W, t0) + _q(W, ta) * i + _q(W, tb) * j
    lon = [[flon(i, j) for i in range(Lk)] for j in range(Mk)]
    lat = [[flat(i, j) for i in range(Lk)] for j in range(Mk)]
    ones = [[1] * Lk for _ in range(Mk)]
    gs = romsfile.grid_vars(Lk, Mk, 2, h=[[100] * Lk for _ in range(Mk)], mask=ones, pm=[[W.frac(1, 800)] * Lk for _ in range(Mk)], pn=[[W.frac(1, 800)] * Lk for _ in range(Mk)], lon=lon, lat=lat)
    romsfile.write(W, tmp / "grid.nc", gs)
    grid = roms.Grid(filename=str(tmp / "grid.nc"), subgrid=p["sub"])
    x, y = W.real("x"), W.real("y")
    W.assume(in_valid(W, grid, x, y), "position in the valid region")

    def bil(fn, xx, yy):
        # the bilinear interpolant of the node function fn at (xx, yy): cell by case split (piecewise affine grids), closed form otherwise
        if not p.get("kinked"):
            return fn(xx, yy)
        if W.symbolic:
            i, j = W.idx(W.core.SN.real(xx).floor()), W.idx(W.core.SN.real(yy).floor())
        else:
            import math

            i, j = math.floor(xx), math.floor(yy)
        i, j = min(max(i, 0), Lk - 2), min(max(j, 0), Mk - 2)
        pp, qq = xx - i, yy - j
        return (1 - pp) * (1 - qq) * fn(i, j) + pp * (1 - qq) * fn(i + 1, j) + (1 - pp) * qq * fn(i, j + 1) + pp * qq * fn(i + 1, j + 1)

    lo, la_ = grid.xy2ll(W.arr([x], "f"), W.arr([y], "f"))
    lo0, la0 = W.tolist(lo)[0], W.tolist(la_)[0]
    W.prove(W.all([W.eq(lo0, bil(flon, x, y)), W.eq(la0, bil(flat, x, y))]), "bilinear-exact", dict(grid=name, note="xy2ll on an affine or piecewise affine grid"))
    X2, Y2 = grid.ll2xy(lo, la_)
    x2, y2 = W.tolist(X2)[0], W.tolist(Y2)[0]
    lon2 = bil(flon, x2, y2)
    lat2 = bil(flat, x2, y2)
    exact = W.all([W.eq(x2, x), W.eq(y2, y)])
    within = W.lt((lon2 - lo0) * (lon2 - lo0) + (lat2 - la0) * (lat2 - la0), W.frac(1, 10 ** 7))
    W.prove(W.any([exact, within]), "roundtrip", dict(grid=name, sub=p["sub"]))
    return (name,)


def signature(v, scen):
    return f"{v['clause']}:{scen['name'].split('-')[0]}"
