"""C03 temporal interpolation for any frame/file layout — real ROMS find_files, scan_file_times,
forcing_steps, Forcing.__init__/update/_read_velocity/_read_field/open_forcing_file/velocity with
the real TimeKeeper; frame positions are symbolic integers, every frame field is symbolic."""
from harness import romsfile
from harness.common import T0

PROPERTY = "C03"
RTOL = 1e-6
CLAUSES = {
    "no-crash": "forcing constructs and updates for every covering layout",
    "field": "at every step the velocity field equals the linear interpolation between the two bracketing frames (the frame itself on a frame step)",
    "scalar": "scalar forcing equals the latest frame at or before the model time (simulation order)",
    "fractional": "velocity(fractional_step) equals the same interpolation evaluated at step + fraction",
    "particle-variables": "variables[u, v] and velocity() at the particle are the (sign-adjusted) sample of the field in force",
}
BOUNDS = {
    "quick": "(plus 4 frames in partitions (4),(2,2),(1,3) and packed storage with per-file scale factors for partitions (2,1),(1,1,1)) 3 frames at symbolic steps in [-2, N+2] (strictly increasing, spacing 1..3, covering the window), all partitions into files (3),(2,1),(1,2),(1,1,1), Nsteps 3, forward and reversed, one scalar field; all frame values symbolic (5x5x2 grid)",
    "thorough": "4 frames (8 partitions), Nsteps 4, spacing 1..4; 5 frames (2,2,1),(1,3,1),(5); dt 600 s and 1 s",
}
ASSUMES = ["frames lie on the model time grid and cover [start, stop]", "spatial sampling is C02's subject: expected particle values are obtained by sampling the expected field with the repository's own sample3DUV"]
OUTSIDE = "frames off the model time grid; float32 storage"
L, M, N = 5, 5, 2


def _partitions(n):
    if n == 0:
        return [()]
    out = []
    for first in range(1, n + 1):
        for rest in _partitions(n - first):
            out.append((first, *rest))
    return out


def scenarios(tier):
    q = tier == "quick"
    out = []
    cfgs = [(3, 3, 3, 600)] if q else [(3, 3, 3, 600), (4, 4, 4, 600), (3, 3, 3, 1)]
    for nfr, Nst, maxgap, dt in cfgs:
        for part in _partitions(nfr):
            for rev in (False, True):
                out.append(dict(name=f"fr{nfr}-{'_'.join(map(str, part))}-{'rev' if rev else 'fwd'}-N{Nst}-dt{dt}", fn="run",
                                params=dict(part=list(part), rev=rev, N=Nst, maxgap=maxgap, dt=dt), cost=nfr ** 3))
    if q:
        # four frames: the run may start two or more frames into the series (frames before the pre-start frame exist)
        for part in ((4,), (2, 2), (1, 3)):
            for rev in (False, True):
                out.append(dict(name=f"fr4-{'_'.join(map(str, part))}-{'rev' if rev else 'fwd'}-N3-dt600", fn="run", params=dict(part=list(part), rev=rev, N=3, maxgap=3, dt=600), cost=64))
    for part in ((2, 1), (1, 1, 1)):
        for rev in (False, True):
            out.append(dict(name=f"packed-{'_'.join(map(str, part))}-{'rev' if rev else 'fwd'}", fn="run", params=dict(part=list(part), rev=rev, N=3, maxgap=3, dt=600, packed=True), cost=30))
    if not q:
        for part in ((2, 2, 1), (1, 3, 1), (5,)):
            for rev in (False, True):
                out.append(dict(name=f"fr5-{'_'.join(map(str, part))}-{'rev' if rev else 'fwd'}", fn="run", params=dict(part=list(part), rev=rev, N=4, maxgap=2, dt=600), cost=200))
    return out


def _frame(W, tag):
    u = [[[W.real(f"u{tag}_{k}{j}{i}") for i in range(L - 1)] for j in range(M)] for k in range(N)]
    v = [[[W.real(f"v{tag}_{k}{j}{i}") for i in range(L)] for j in range(M - 1)] for k in range(N)]
    t = [[[W.real(f"T{tag}_{k}{j}{i}") for i in range(L)] for j in range(M)] for k in range(N)]
    return u, v, t


def run(W, p):
    part, rev, Nst, dt = p["part"], p["rev"], p["N"], p["dt"]
    n = sum(part)
    sgn = -1 if rev else 1
    roms, tk, st = W.load("ladim.ROMS"), W.load("ladim.timekeeper"), W.load("ladim.state")
    # frame positions in simulation order
    m = [W.int(f"m{i}", -2 - max(0, n - 3) * 2, Nst + 2) for i in range(n)]
    for i in range(n - 1):
        W.assume(m[i] < m[i + 1], "frames strictly ordered")
        W.assume(m[i + 1] - m[i] <= p["maxgap"], "bounded spacing")
    W.assume(m[0] <= 0, "forcing covers the start")
    W.assume(m[-1] >= Nst, "forcing covers the stop")
    frames = [_frame(W, i) for i in range(n)]
    tmp = W.scratch()
    ones = [[1] * L for _ in range(M)]
    gs = romsfile.grid_vars(L, M, N, h=[[100] * L for _ in range(M)], mask=ones, pm=[[W.frac(1, 800)] * L for _ in range(M)], pn=[[W.frac(1, 800)] * L for _ in range(M)])
    romsfile.write(W, tmp / "grid.nc", gs)
    # files hold ascending physical time; in a reversed run simulation order is the reverse
    order = list(range(n)) if not rev else list(range(n))[::-1]
    phys_part = part if not rev else part[::-1]
    k = 0
    scale_of = {}
    for fi, nfr in enumerate(phys_part):
        idx = order[k:k + nfr]
        times = [T0 + sgn * m[i] * dt - romsfile.REFSEC for i in idx]
        scale = offs = None
        if p.get("packed"):
            # every file carries its own packing attributes
            su, sT, oT = W.real(f"scale_uv{fi}", W.frac(1, 1000), 1), W.real(f"scale_T{fi}", W.frac(1, 1000), 1), W.real(f"offset_T{fi}", -5, 5)
            scale, offs = dict(u=su, v=su, temp=sT), dict(u=0, v=0, temp=oT)
            for i in idx:
                scale_of[i] = (su, sT, oT)
        fs = romsfile.forcing_vars(times, [frames[i][0] for i in idx], [frames[i][1] for i in idx], extra=dict(temp=[frames[i][2] for i in idx]), scale=scale, offsets=offs)
        dims = dict(fs[0], xi_rho=L, eta_rho=M, xi_u=L - 1, eta_u=M, xi_v=L, eta_v=M - 1, s_rho=N)
        W.nc_file(tmp / f"f_{fi:03d}.nc", dims, fs[1])
        k += nfr
    timer = tk.TimeKeeper(start=W.dt(T0), stop=W.dt(T0 + sgn * Nst * dt), dt=dt, time_reversal=rev)
    grid = roms.Grid(filename=str(tmp / "grid.nc"))
    S = st.State(instance_variables=dict(temp=float), default_values=dict(temp=0))
    S.append(X=W.frac(9, 4), Y=W.frac(7, 4), Z=30)
    mods = dict(time=timer, grid=grid, state=S)
    F = roms.Forcing(mods, str(tmp / "f_*.nc"), extra_forcing=["temp"])
    mc = [W.idx(x) for x in m]
    i0, j0 = grid.i0, grid.j0

    def sub_u(f):
        return [[[f[k][j][i] for i in range(grid.i0 - 1, grid.i1)] for j in range(grid.j0, grid.j1)] for k in range(N)]

    def sub_v(f):
        return [[[f[k][j][i] for i in range(grid.i0, grid.i1)] for j in range(grid.j0 - 1, grid.j1)] for k in range(N)]

    def sub_r(f):
        return [[[f[k][j][i] for i in range(grid.i0, grid.i1)] for j in range(grid.j0, grid.j1)] for k in range(N)]

    def lerp(A, B, w):
        return [[[a * (1 - w) + b * w for a, b in zip(ra, rb)] for ra, rb in zip(pa, pb)] for pa, pb in zip(A, B)]

    def scaled(f, c):
        return [[[x * c for x in r] for r in pl] for pl in f]

    def fr(q, comp):  # physical (unpacked) field of frame q
        raw = frames[q][comp]
        if not p.get("packed"):
            return raw
        su, sT, oT = scale_of[q]
        if comp < 2:
            return scaled(raw, su)
        return [[[oT + sT * x for x in r] for r in pl] for pl in raw]

    def field_at(t):  # t = step + fraction (rational) in simulation order
        lo = max(q for q in range(n) if mc[q] <= t)
        hi = min(q for q in range(n) if mc[q] >= t)
        w = 0 if lo == hi else W.frac(1) * (t - mc[lo]) / (mc[hi] - mc[lo])
        return lerp(sub_u(fr(lo, 0)), sub_u(fr(hi, 0)), w), lerp(sub_v(fr(lo, 1)), sub_v(fr(hi, 1)), w), lo

    def flat(a):
        if W.symbolic:
            return list(a.a.ravel()) if hasattr(a, "a") else [x for p_ in a for r in p_ for x in r]
        import numpy as np

        return list(np.asarray(a, dtype=float).ravel())

    def same(got, exp):
        g, e = flat(got), flat(W.arr_nd(exp, "f"))
        if len(g) != len(e):
            return False
        return W.all([W.eq(a, b) for a, b in zip(g, e)])

    for s in range(Nst):
        timer.update()
        F.update()
        eu, ev, lo = field_at(s)
        W.prove(W.all([same(F.fields["u"], eu), same(F.fields["v"], ev)]), "field", dict(step=s, frames_at=mc, part=part, rev=rev))
        W.prove(same(F.fields["temp"], sub_r(fr(lo, 2))), "scalar", dict(step=s, frames_at=mc, part=part, rev=rev))
        X, Y, K, A = S.X - i0, S.Y - j0, F.K, F.A
        for frac in (0, W.frac(1, 2), 1):
            if s + frac > mc[-1]:
                continue
            fu, fv, _ = field_at(s + frac)
            xu, xv = roms.sample3DUV(W.arr_nd(fu, "f"), W.arr_nd(fv, "f"), X, Y, K, A)
            gu, gv = F.velocity(S.X, S.Y, S.Z, fractional_step=frac)
            ok = W.all([W.eq(W.tolist(gu)[0], sgn * W.tolist(xu)[0]), W.eq(W.tolist(gv)[0], sgn * W.tolist(xv)[0])])
            W.prove(ok, "fractional" if frac else "particle-variables", dict(step=s, frac=str(frac), frames_at=mc, part=part, rev=rev))
        xu, xv = roms.sample3DUV(W.arr_nd(eu, "f"), W.arr_nd(ev, "f"), X, Y, K, A)
        W.prove(W.all([W.eq(W.tolist(F.variables["u"])[0], sgn * W.tolist(xu)[0]), W.eq(W.tolist(F.variables["v"])[0], sgn * W.tolist(xv)[0])]), "particle-variables", dict(step=s, frames_at=mc))
    F.close()
    return tuple(mc)


def signature(v, scen):
    p = scen["params"]
    m = v.get("model") or {}
    n = sum(p["part"])
    mc = [m.get(f"m{i}") for i in range(n)]
    gaps = [b - a for a, b in zip(mc, mc[1:])] if None not in mc else []
    tags = []
    if 1 in gaps:
        tags.append("spacing=dt")
    if len(p["part"]) > 1:
        tags.append("multifile")
    tags.append("rev" if p["rev"] else "fwd")
    if v["kind"] == "crash":
        return f"crash:{v['info'].get('exception')}:" + ",".join(tags)
    return f"{v['clause']}:" + ",".join(tags)
