"""C08 restart transparency — relational co-simulation of the real Model (configure_v2 warm-start
branch, warm_start(), Model.__init__ catch-up, release with warm_start_file, Output, filename_generator,
main loop): run A uninterrupted, run B warm-started from one of A's completed files; every file A
writes after the restart point is compared, value by value, by the solver."""
from harness.common import T0, base_config, ovar, run_main

PROPERTY = "C08"
CLAUSES = {
    "no-crash": "both runs end normally",
    "files-continue": "the restarted run writes every file the uninterrupted run writes after the restart point, under the same names",
    "records-equal": "each such file holds the same records: time, particle_count, pid, X, Y, Z, age, forcing variable",
    "particle-vars-equal": "per-particle variables in those files are equal",
}
BOUNDS = {
    "quick": "one scenario on the real ROMS grid/forcing (rebuilt at the restart time; symbolic release depth) plus, with plug-in grid/forcing: Nsteps 4..7, period 1..2, numrec 1..2, restart from every completed file but the last, continuous release every 2 steps (+ one scenario restarting from a file without the num_particles attribute; + one late discrete row; + two scenarios with a second source row at a symbolic step on or off the frequency grid; + a time-typed particle variable stored in seconds, hours, days, with explicit reference or without units; + variables unlisted, without default, stored as i1), one IBM kill (symbolic flag, any step), IBM age variable, scalar forcing, EF/RK2/RK4; positions, velocity, particle values symbolic",
    "thorough": "Nsteps up to 8, period 1..3, numrec 1..3",
}
ASSUMES = ["values are stored exactly (output precision is outside the claim)", "diffusion off", "plug-in grid/forcing with constant velocity (the ROMS forcing restart is C03's time-shift argument)"]
OUTSIDE = "files of the restarted run that have no counterpart in the uninterrupted run (e.g. an empty trailing file) are not judged; records inside compared files must match one to one"
DT = 600


def scenarios(tier):
    q = tier == "quick"
    out = []
    combos = [(4, 1, 1), (4, 1, 2), (5, 2, 1), (6, 2, 1), (6, 2, 2), (5, 1, 2), (6, 1, 1), (5, 2, 2), (7, 3, 2)] if q else [(n, p, r) for n in (4, 5, 6, 7, 8) for p in (1, 2, 3) for r in (1, 2, 3)]
    out.append(dict(name="roms-N5-P2-R1-EF", fn="run", params=dict(N=5, P=2, R=1, adv="EF", roms=True), cost=60))
    if not q:
        out.append(dict(name="roms-N6-P1-R2-RK4", fn="run", params=dict(N=6, P=1, R=2, adv="RK4", roms=True), cost=90))
    out.append(dict(name="leaves-grid-N6-P1-R1-EF", fn="run", params=dict(N=6, P=1, R=1, adv="EF", fast=True), cost=30))
    # the warm_start section names only the file (variables defaults to []): what is on the file is restored all the same
    out.append(dict(name="unlisted-N6-P1-R2-EF", fn="run", params=dict(N=6, P=1, R=2, adv="EF", unlisted=True), cost=30))
    # a state variable fed from the release table, without default, not written to the files: a restart cannot know its values,
    # but the state must stay aligned (the other variables continue as in the uninterrupted run)
    out.append(dict(name="nodefault-N6-P1-R2-EF", fn="run", params=dict(N=6, P=1, R=2, adv="EF", nodefault=True), cost=30))
    for tv in ("placeholder", "explicit", "hours", "days", "nounits"):
        out.append(dict(name=f"timevar-{tv}-N6-P1-R2-EF", fn="run", params=dict(N=6, P=1, R=2, adv="EF", timevar=tv), cost=30))
    for ss in (0, 1):
        out.append(dict(name=f"settled-N6-P1-R2-EF-s{ss}", fn="run", params=dict(N=6, P=1, R=2, adv="EF", settle=True, settle_step=ss), cost=30))
    out.append(dict(name="discrete-offgrid-N6-P1-R1-EF", fn="run", params=dict(N=6, P=1, R=1, adv="EF", discrete_off=250), cost=30))
    out.append(dict(name="reversed-N6-P1-R2-EF", fn="run", params=dict(N=6, P=1, R=2, adv="EF", rev=True), cost=30))
    out.append(dict(name="legacy-N6-P1-R2-EF", fn="run", params=dict(N=6, P=1, R=2, adv="EF", legacy=True), cost=30))
    # release table with a second source at a symbolic step (on or off the release-frequency grid of the first row)
    out.append(dict(name="tworows-N6-P1-R1-EF", fn="run", params=dict(N=6, P=1, R=1, adv="EF", tworows=True), cost=40))
    out.append(dict(name="tworows-N7-P2-R1-EF", fn="run", params=dict(N=7, P=2, R=1, adv="EF", tworows=True), cost=40))
    for (N, P, R) in combos:
        for adv in (("EF",) if (N, P, R) != (6, 2, 1) else ("EF", "RK2", "RK4")):
            out.append(dict(name=f"N{N}-P{P}-R{R}-{adv}", fn="run", params=dict(N=N, P=P, R=R, adv=adv), cost=N * 3))
    return out


def _config(W, tmp, sub, p, x0, u, temp, w0, kill, warm=None, first_file=None):
    N, P, R = p["N"], p["P"], p["R"]
    ivars = dict(pid=ovar("i4"), X=ovar("f8"), Y=ovar("f8"), Z=ovar("f8"), age=ovar("f8"), temp=ovar("f8"))
    if p.get("settle"):
        ivars["active"] = ovar("i1")  # the activity flag is saved so that a restart can restore it
    pvars = dict(w0=ovar("f8"))
    svars = dict(w0=float)
    isv = dict(age=float, temp=float)
    if p.get("nodefault"):
        isv["weight"] = float
    wvars = ["age", "temp", "w0"]
    REF = T0 - 86400
    if p.get("timevar"):
        # a time-typed particle variable, units given with the placeholder or spelled out (the reference time is then explicit)
        units = {"placeholder": "seconds since reference_time", "explicit": "seconds since 2000-01-03 00:00:00", "hours": "hours since reference_time", "days": "days since reference_time", "nounits": None}[p["timevar"]]
        # without a units attribute the writer stores seconds since the reference time (documented default of Output.encode)
        pvars["release_time"] = ovar("f8", units=units, long_name="particle release time") if units else ovar("f8", long_name="particle release time")
        svars["release_time"] = "time"
        wvars.append("release_time")
    cfg = base_config(
        W, start=T0, stop=T0 + (-1 if p.get("rev") else 1) * N * DT, dt=DT, rev=bool(p.get("rev")), release_file=tmp / "r.rls", u=u, temp=temp, advection=p["adv"],
        state=dict(instance_variables=isv, particle_variables=svars, default_values=dict(age=0, temp=0)),
        reference=(REF if p.get("timevar") else None),
        release=(dict(continuous=True, release_frequency=2 * DT) if not p.get("discrete_off") else dict()),
        ibm=dict(kill=kill, age=True, kill_t0=W.dt(T0), settle=({p["settle_step"]: {0: True}} if p.get("settle") else None)),  # deaths are tied to absolute time, not to the run's own step counter
        output=dict(filename=str(sub / (first_file or "out.nc")), output_period=P * DT, instance_variables=ivars, particle_variables=pvars, numrec=R),
        warm_start=(dict(filename=str(warm), variables=([] if p.get("unlisted") else wvars)) if warm else {}),
    )
    if p.get("roms"):
        # real ROMS grid + forcing (level- and frame-dependent currents, scalar field): the forcing is rebuilt at the restart time
        cfg["grid"] = dict(module="ladim.ROMS", filename=str(tmp / "ocean.nc"))
        cfg["forcing"] = dict(module="ladim.ROMS", filename=str(tmp / "ocean.nc"), extra_forcing=["temp"])
    else:
        cfg["forcing"]["filename"] = str(tmp / "unused-forcing.nc")  # the plug-ins ignore it; configure_v2 wants one for the grid default
        cfg["grid"]["filename"] = str(tmp / "unused-grid.nc")
    conf = W.load("ladim.configure")
    conf.configure_v2(cfg)  # the real defaulting + warm-start handling (start time from the file, skip_initial, release.warm_start_file)
    return cfg


def run(W, p):
    N, P, R = p["N"], p["P"], p["R"]
    tmp = W.scratch()
    (tmp / "A").mkdir()
    (tmp / "B").mkdir()
    if p.get("roms"):
        from harness import c14

        c14._files(W, tmp, T0, c14._uvals(W), frames=[-1, 1, 2, 6])  # a long last interval: a wrong slope after a restart shows in the records
        x0 = W.frac(11, 4)  # start position inside the 6x6 ROMS grid; depth symbolic below
    else:
        x0 = W.real("x0", 6, 14)
    u = W.real("u", -W.frac(1, 100), W.frac(1, 100)) if not p.get("fast") else W.frac(1, 2)  # fast: 3 cells per step, particles leave the 20-cell basin and die
    temp = W.real("temp")
    w0 = W.real("w0")
    kstep = W.idx(W.int("killstep", 0, N - 1) if not p.get("roms") else W.int("killstep", 1, 2))
    kpid = W.idx(W.int("killpid", 0, 1)) if not p.get("roms") else 0
    kflag = W.bool("killflag")
    kill = {kstep: {kpid: kflag}}
    # continuous release from the start (one row, every 2 steps)
    if p.get("roms"):
        W.table(tmp / "r.rls", ["release_time", "X", "Y", "Z", "w0"], [[W.dt(T0), x0, 3, W.real("z0", 0, 99), w0]])
    elif p.get("discrete_off") is not None:
        # discrete release, second row off the model's time grid (it is released at the step that contains it)
        r2 = W.idx(W.int("second_row_step", 1, N - 2))
        W.table(tmp / "r.rls", ["release_time", "X", "Y", "Z", "w0"], [[W.dt(T0), x0, 10, 5, w0], [W.dt(T0 + r2 * DT + p["discrete_off"]), x0 + 1, 12, 7, w0 + 1]])
    elif p.get("tworows"):
        r2 = W.idx(W.int("second_row_step", 1, N - 2))
        W.table(tmp / "r.rls", ["release_time", "X", "Y", "Z", "w0"], [[W.dt(T0), x0, 10, 5, w0], [W.dt(T0 + r2 * DT), x0 + 1, 12, 7, w0 + 1]])
    elif p.get("nodefault"):
        W.table(tmp / "r.rls", ["release_time", "X", "Y", "Z", "w0", "weight"], [[W.dt(T0), x0, 10, 5, w0, W.real("weight")]])
    else:
        W.table(tmp / "r.rls", ["release_time", "X", "Y", "Z", "w0"], [[W.dt(T0), x0, 10, 5, w0]])
    cfgA = _config(W, tmp, tmp / "A", p, x0, u, temp, w0, kill)
    run_main(W, cfgA)
    nrec = len([s for s in range(N) if s % P == 0])
    nfiles = -(-nrec // R)
    filesA = [f"out_{i:03d}.nc" for i in range(nfiles)]
    if nfiles < 2:
        return ("nothing to restart",)
    k = W.idx(W.int("restart_file", 0, nfiles - 2))
    if p.get("legacy"):
        # a restart file without the num_particles attribute (written by an older version): the highest identifier on file
        # counts; with a record every step every particle released so far appears on file, so the fall-back is exact
        W.nc_del_gatt(tmp / "A" / filesA[k], "num_particles")
    cfgB = _config(W, tmp, tmp / "B", p, x0, u, temp, w0, kill, warm=tmp / "A" / filesA[k], first_file=f"out_{k + 1:03d}.nc")
    run_main(W, cfgB)
    extra = []
    for i in range(k + 1, nfiles):
        name = filesA[i]
        if not W.nc_exists(tmp / "B" / name):
            W.prove(False, "files-continue", dict(missing=name, restart_from=filesA[k], N=N, P=P, R=R))
            continue
        W.prove(True, "files-continue")
        a, b = W.nc_read(tmp / "A" / name), W.nc_read(tmp / "B" / name)
        va, vb = a["vars"], b["vars"]
        conds = [len(va["time"]) == len(vb["time"])]
        if len(vb["time"]) > len(va["time"]):
            extra.append((name, len(vb["time"]) - len(va["time"])))
        nr = len(va["time"])
        ra, rb = _ref(W, a["atts"]["time"]["units"]), _ref(W, b["atts"]["time"]["units"])
        for r in range(min(nr, len(vb["time"]))):
            # the time coordinate is relative to each file's own reference time (default: start of that run): compare instants
            conds.append(_eq(W, va["time"][r] + ra, vb["time"][r] + rb) if not (W.is_fill(va["time"][r]) or W.is_fill(vb["time"][r])) else False)
            conds.append(_eq(W, va["particle_count"][r], vb["particle_count"][r]))
        ninst = sum(int(c) for c in va["particle_count"] if not W.is_fill(c))
        for var in ("pid", "X", "Y", "Z", "age", "temp") + (("active",) if p.get("settle") else ()):
            xa, xb = va[var][:ninst], vb[var][:ninst]
            if len(xb) < len(xa):
                conds.append(False)
                continue
            conds += [_eq(W, p_, q_) for p_, q_ in zip(xa, xb)]
        W.prove(W.all(conds), "records-equal", dict(file=name, restart_from=filesA[k], N=N, P=P, R=R, killstep=kstep, killpid=kpid))
        pa, pb = va.get("w0", []), vb.get("w0", [])
        W.prove(W.all([len(pb) >= len(pa)] + [_eq(W, p_, q_) for p_, q_ in zip(pa, pb)]), "particle-vars-equal", dict(file=name, restart_from=filesA[k], lenA=len(pa), lenB=len(pb), N=N, P=P, R=R, killstep=kstep, killpid=kpid))
        if p.get("timevar"):
            # decoded release instants (value + the reference named by the variable's own units attribute)
            ua, ub = a["atts"].get("release_time", {}).get("units"), b["atts"].get("release_time", {}).get("units")
            if p["timevar"] == "nounits":  # the default: the units of the file's time coordinate
                ua, ub = a["atts"]["time"].get("units"), b["atts"]["time"].get("units")
            ta, tb = va.get("release_time", []), vb.get("release_time", [])
            ok = ua is not None and ub is not None and len(tb) >= len(ta)
            W.prove(W.all([_eq(W, x_ * _usec(ua) + _ref(W, ua), y_ * _usec(ub) + _ref(W, ub)) for x_, y_ in zip(ta, tb)]) if ok else False, "particle-vars-equal",
                    dict(file=name, restart_from=filesA[k], variable="release_time", units_uninterrupted=ua, units_restarted=ub, lenA=len(ta), lenB=len(tb)))
    return (k, tuple(extra))


def _ref(W, units):
    import numpy as np

    unit, _, ref = units.partition("since")
    assert unit.strip() in ("seconds", "hours", "days"), units
    return int((np.datetime64(ref.strip(), "s") - np.datetime64(0, "s")) / np.timedelta64(1, "s"))


def _usec(units):
    return dict(seconds=1, hours=3600, days=86400)[units.partition("since")[0].strip()]


def _eq(W, a, b):
    fa, fb = W.is_fill(a), W.is_fill(b)
    if fa or fb:
        return fa and fb
    return W.eq(a, b)


def signature(v, scen):
    info = v.get("info") or {}
    if v["kind"] == "crash":
        return f"crash:{info.get('exception')}"
    return v["clause"]
