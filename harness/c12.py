"""C12 vertical grid — real ROMS sdepth, s_stretch (sinh/cosh/tanh/exp as axiomatised uninterpreted
functions), z2s/z2s_kernel on symbolic stretching arrays, bathymetry and depths."""
PROPERTY = "C12"
CLAUSES = {
    "no-crash": "the functions return without exception",
    "sdepth-ordered": "level depths increase strictly from bottom to surface and lie in [-h, 0]",
    "sdepth-w-ends": "w-levels start at -h and end at 0",
    "sdepth-interleave": "w- and rho-levels interleave (given interleaved stretching arrays)",
    "stretch-monotone": "the stretching curve rises monotonically within [-1, 0]; the w-curve runs from -1 to 0; rho-values lie between the neighbouring w-values",
    "stretch2-ends": "Vstretching 2: the w-curve starts at -1 and ends at 0",
    "lookup": "z2s returns 1 <= K <= N-1 and 0 <= A <= 1 with A z[K-1] + (1-A) z[K] == clamp(-Z, z[0], z[N-1])",
    "grid-vinfo": "a Grid built with explicit Vinfo (N, hc, theta_s, theta_b) carries level depths z_r, z_w with the same ordering / range / interleaving properties",
    "lookup-single-level": "with one level the lookup stays inside the column array",
}
BOUNDS = {
    "quick": "sdepth: N 1..4, arbitrary sorted C in [-1,0], hc, h symbolic (Vtransform 1: 0<=hc<=h; 2: hc>=0), 2 bathymetry cells, rho and w; 2x3 cells given as a transposed (not C-contiguous) view, N = 2; s_stretch: N 1..3, theta_s in (0,10], theta_b in [0,1] / (0,4], Vstretching 1, 2 (end points), 4; z2s: N 2..4 arbitrary sorted column, any depth; N = 1",
    "thorough": "sdepth N up to 6, s_stretch N up to 4, z2s N up to 6",
}
ASSUMES = ["sinh, tanh, cosh, exp are uninterpreted; only these facts are used, instantiated at the argument terms that occur: sinh/tanh odd and strictly increasing with sign, |tanh|<1, sinh(x)>x for x>0, cosh even, >=1, strictly increasing in |x|, exp>0, strictly increasing, exp(0)=1",
           "C arrays given to sdepth are sorted in [-1, 0] (w: C[0] = -1, C[N] = 0) as its docstring requires"]
OUTSIDE = "monotonicity of the Vstretching = 2 curve (needs convexity facts not in the axiom set); N beyond the bound (N up to 60 in the property text)"
OBL_TIMEOUT_MS = 120000


def scenarios(tier):
    q = tier == "quick"
    out = []
    for vt in (1, 2):
        for N in (range(1, 5) if q else range(1, 7)):
            out.append(dict(name=f"sdepth-vt{vt}-N{N}", fn="sdepth", params=dict(vt=vt, N=N), cost=N))
        # bathymetry given as a 2-D array that is not C-contiguous (a transposed view, as slicing or transposing a grid file's h gives)
        out.append(dict(name=f"sdepth2d-view-vt{vt}", fn="sdepth2d", params=dict(vt=vt, N=2), cost=3))
    for vs in (1, 4):
        for N in (range(1, 4) if q else range(1, 5)):
            out.append(dict(name=f"stretch-vs{vs}-N{N}", fn="stretch", params=dict(vs=vs, N=N), cost=N * 3))
    out.append(dict(name="stretch-vs2-ends", fn="stretch2", params=dict(N=2), cost=2))
    for N in (range(2, 5) if q else range(2, 7)):
        out.append(dict(name=f"lookup-N{N}", fn="lookup", params=dict(N=N), cost=N))
    out.append(dict(name="lookup-N1", fn="lookup1", params={}, cost=1))
    for N in ((2,) if q else (2, 3)):
        out.append(dict(name=f"grid-vinfo-N{N}", fn="grid_vinfo", params=dict(N=N), cost=10))
    return out


def sdepth2d(W, p):
    """2 x 3 cells of arbitrary depths handed over as the transposed view of a 3 x 2 array: every column belongs to its own cell"""
    roms = W.load("ladim.ROMS")
    N, vt = p["N"], p["vt"]
    J, I = 2, 3
    h = [[W.real(f"h{j}{i}", 0, 5000, lo_strict=True) for i in range(I)] for j in range(J)]
    hc = W.real("hc", 0, 5000)
    if vt == 1:
        for row in h:
            for x in row:
                W.assume(W.le(hc, x), "Vtransform 1: hc <= h")
    Cw = [-1] + [W.real(f"Cw{k}", -1, 0, lo_strict=True, hi_strict=True) for k in range(1, N)] + [0]
    Cr = [W.real(f"Cr{k}", -1, 0, lo_strict=True, hi_strict=True) for k in range(N)]
    for k in range(N):
        W.assume(W.all([W.lt(Cw[k], Cr[k]), W.lt(Cr[k], Cw[k + 1])]), "stretching arrays interleaved and sorted")
    hT = W.arr_nd([[h[j][i] for j in range(J)] for i in range(I)], "f")  # 3 x 2, C order
    Hview = hT.T  # 2 x 3, not C-contiguous
    zr = W.tolist(roms.sdepth(Hview, hc, W.arr(Cr, "f"), stagger="rho", Vtransform=vt))
    zw = W.tolist(roms.sdepth(Hview, hc, W.arr(Cw, "f"), stagger="w", Vtransform=vt))
    W.prove(len(zr) == N and len(zw) == N + 1 and all(len(lv) == J and all(len(r) == I for r in lv) for lv in zr + zw), "sdepth-ordered", dict(note="shape 2-D"))
    for j in range(J):
        for i in range(I):
            colr = [zr[k][j][i] for k in range(N)]
            colw = [zw[k][j][i] for k in range(N + 1)]
            conds = [W.lt(colr[k], colr[k + 1]) for k in range(N - 1)] + [W.lt(colw[k], colw[k + 1]) for k in range(N)]
            conds += [W.all([W.le(-h[j][i], z), W.le(z, 0)]) for z in colr + colw]
            W.prove(W.all(conds), "sdepth-ordered", dict(cell=[j, i], Vtransform=vt, layout="transposed view"))
            W.prove(W.all([W.eq(colw[0], -h[j][i]), W.eq(colw[N], 0)]), "sdepth-w-ends", dict(cell=[j, i], Vtransform=vt, layout="transposed view"))
    return ("sdepth2d", vt)


def sdepth(W, p):
    roms = W.load("ladim.ROMS")
    N, vt = p["N"], p["vt"]
    h = [W.real(f"h{i}", 0, 5000, lo_strict=True) for i in range(2)]
    hc = W.real("hc", 0, 5000)
    if vt == 1:
        for x in h:
            W.assume(W.le(hc, x), "Vtransform 1: hc <= h")
    Cw = [-1] + [W.real(f"Cw{k}", -1, 0, lo_strict=True, hi_strict=True) for k in range(1, N)] + [0]
    Cr = [W.real(f"Cr{k}", -1, 0, lo_strict=True, hi_strict=True) for k in range(N)]
    for k in range(N):
        W.assume(W.all([W.lt(Cw[k], Cr[k]), W.lt(Cr[k], Cw[k + 1])]), "stretching arrays interleaved and sorted")
    zr = roms.sdepth(W.arr(h, "f"), hc, W.arr(Cr, "f"), stagger="rho", Vtransform=vt)
    zw = roms.sdepth(W.arr(h, "f"), hc, W.arr(Cw, "f"), stagger="w", Vtransform=vt)
    zr, zw = W.tolist(zr), W.tolist(zw)
    W.prove(len(zr) == N and len(zw) == N + 1 and all(len(r) == 2 for r in zr + zw), "sdepth-ordered", dict(note="shape"))
    for i in range(2):
        colr = [zr[k][i] for k in range(N)]
        colw = [zw[k][i] for k in range(N + 1)]
        conds = [W.lt(colr[k], colr[k + 1]) for k in range(N - 1)] + [W.lt(colw[k], colw[k + 1]) for k in range(N)]
        conds += [W.all([W.le(-h[i], v), W.le(v, 0)]) for v in colr + colw]
        W.prove(W.all(conds), "sdepth-ordered", dict(cell=i, Vtransform=vt))
        W.prove(W.all([W.eq(colw[0], -h[i]), W.eq(colw[N], 0)]), "sdepth-w-ends", dict(cell=i, Vtransform=vt))
        W.prove(W.all([W.all([W.lt(colw[k], colr[k]), W.lt(colr[k], colw[k + 1])]) for k in range(N)]), "sdepth-interleave", dict(cell=i, Vtransform=vt))
    return ("sdepth", vt, N)


def _axioms(W):
    if W.symbolic:
        for ax in W.np.uf_axioms():
            W.E.add(ax)


def stretch(W, p):
    roms = W.load("ladim.ROMS")
    N, vs = p["N"], p["vs"]
    ts = W.real("theta_s", 0, 10, lo_strict=True)
    tb = W.real("theta_b", 0, 1) if vs == 1 else W.real("theta_b", 0, 4, lo_strict=True)
    Cr = W.tolist(roms.s_stretch(N, ts, tb, stagger="rho", Vstretching=vs))
    Cw = W.tolist(roms.s_stretch(N, ts, tb, stagger="w", Vstretching=vs))
    _axioms(W)
    _axioms(W)  # second round: terms introduced by the first instantiation (negated arguments)
    conds = [W.eq(Cw[0], -1), W.eq(Cw[N], 0)]
    conds += [W.lt(Cw[k], Cw[k + 1]) for k in range(N)]
    conds += [W.lt(Cr[k], Cr[k + 1]) for k in range(N - 1)]
    conds += [W.all([W.lt(Cw[k], Cr[k]), W.lt(Cr[k], Cw[k + 1])]) for k in range(N)]
    for i, c in enumerate(conds):
        W.prove(c, "stretch-monotone", dict(Vstretching=vs, N=N, part=i))
    return ("stretch", vs, N)


def stretch2(W, p):
    roms = W.load("ladim.ROMS")
    N = p["N"]
    ts = W.real("theta_s", 0, 10, lo_strict=True)
    tb = W.real("theta_b", 0, 4, lo_strict=True)
    Cw = W.tolist(roms.s_stretch(N, ts, tb, stagger="w", Vstretching=2))
    _axioms(W)
    _axioms(W)
    W.prove(W.all([W.eq(Cw[0], -1), W.eq(Cw[N], 0)]), "stretch2-ends")
    return ("stretch2",)


def lookup(W, p):
    roms = W.load("ladim.ROMS")
    N = p["N"]
    z = [W.real(f"z{k}", -5000, 0, hi_strict=True) for k in range(N)]
    for k in range(N - 1):
        W.assume(W.lt(z[k], z[k + 1]), "column sorted")
    other = [W.real(f"o{k}", -5000, 0) for k in range(N)]
    zp = W.real("Z", -100, 6000)
    # non-square 2 x 3 field of columns: the particle sits in cell (j=0, i=2); the other columns must not matter
    col = lambda j, i: z if (j, i) == (0, 2) else other  # noqa: E731
    z_rho = W.arr_nd([[[col(j, i)[k] for i in range(3)] for j in range(2)] for k in range(N)], "f")
    x = W.real("x", W.frac(3, 2), W.frac(5, 2), lo_strict=True, hi_strict=True)
    y = W.real("y", -W.frac(1, 2), W.frac(1, 2), lo_strict=True, hi_strict=True)
    K, A = roms.z2s(z_rho, W.arr([x], "f"), W.arr([y], "f"), W.arr([zp], "f"))
    K, A = W.tolist(K)[0], W.tolist(A)[0]
    k = W.idx(K)
    ok_k = 1 <= k <= N - 1
    W.prove(ok_k, "lookup", dict(K=k, N=N))
    if not ok_k:
        return ("badK", k)
    d = -zp
    clamp = W.ite(W.lt(d, z[0]), z[0], W.ite(W.lt(z[N - 1], d), z[N - 1], d))
    W.prove(W.all([W.le(0, A), W.le(A, 1), W.eq(A * z[k - 1] + (1 - A) * z[k], clamp)]), "lookup", dict(K=k, N=N))
    return ("lookup", N, k)


def lookup1(W, p):
    """N = 1: whatever K, A are, the kernels that consume them (trilinear: F[K-1], F[K]) must stay inside"""
    roms = W.load("ladim.ROMS")
    z0 = W.real("z0", -5000, 0, hi_strict=True)
    zp = W.real("Z", -100, 6000)
    z_rho = W.arr_nd([[[z0, z0], [z0, z0]]], "f")
    K, A = roms.z2s(z_rho, W.arr([W.frac(1, 4)], "f"), W.arr([W.frac(1, 4)], "f"), W.arr([zp], "f"))
    k = W.idx(W.tolist(K)[0])
    a = W.tolist(A)[0]
    # the value a kernel builds from these: a*F[k-1] + (1-a)*F[k]; with one level only index 0 exists
    inside = (k in (0, 1)) and (k - 1 in (0, -1))
    uses_upper = W.truth(W.not_(W.eq(a, 1))) if k == 1 else False
    W.prove(k == 0 or (k == 1 and False), "lookup-single-level", dict(K=k, note="K = 1 makes trilinear read level index 1 of a one-level field"))
    return ("lookup1", k)


def grid_vinfo(W, p):
    from harness import romsfile

    roms = W.load("ladim.ROMS")
    N = p["N"]
    L, M = 4, 4
    tmp = W.scratch()
    h = [[W.real(f"h{j}{i}", 10, 5000) if (j, i) in ((1, 1), (2, 2)) else 100 for i in range(L)] for j in range(M)]
    ones = [[1] * L for _ in range(M)]
    gs = romsfile.grid_vars(L, M, N, h=h, mask=ones, pm=[[W.frac(1, 800)] * L for _ in range(M)], pn=[[W.frac(1, 800)] * L for _ in range(M)])
    romsfile.write(W, tmp / "grid.nc", gs)
    ts = W.real("theta_s", 0, 10, lo_strict=True)
    tb = W.real("theta_b", 0, 1)
    hc = W.real("hc", 0, 10)
    grid = roms.Grid(filename=str(tmp / "grid.nc"), Vinfo=dict(N=N, hc=hc, theta_s=ts, theta_b=tb))
    _axioms(W)
    _axioms(W)
    zr, zw = W.tolist(grid.z_r), W.tolist(grid.z_w)
    W.prove(len(zr) == N and len(zw) == N + 1, "grid-vinfo", dict(shape=(len(zr), len(zw))))
    for (j, i) in ((0, 0), (1, 1)):  # subgrid-local indices of the cells (1,1) and (2,2)
        hh = h[j + 1][i + 1]
        colr = [zr[k][j][i] for k in range(N)]
        colw = [zw[k][j][i] for k in range(N + 1)]
        conds = [W.lt(colr[k], colr[k + 1]) for k in range(N - 1)] + [W.lt(colw[k], colw[k + 1]) for k in range(N)]
        conds += [W.all([W.le(-hh, v), W.le(v, 0)]) for v in colr + colw]
        conds += [W.eq(colw[0], -hh), W.eq(colw[N], 0)]
        conds += [W.all([W.lt(colw[k], colr[k]), W.lt(colr[k], colw[k + 1])]) for k in range(N)]
        for n, c in enumerate(conds):
            W.prove(c, "grid-vinfo", dict(cell=(j, i), part=n))
    return ("grid-vinfo", N)


def signature(v, scen):
    if v["kind"] == "crash":
        return f"crash:{v['info'].get('exception')}:{scen['name']}"
    return f"{v['clause']}:{scen['name'].rsplit('-N', 1)[0]}"
