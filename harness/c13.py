"""C13 clock arithmetic and period spellings — real ladim.timekeeper on unbounded symbolic
start/stop/reference seconds and step numbers."""
import datetime

PROPERTY = "C13"
CLAUSES = {
    "nsteps": "Nsteps == floor(|stop-start|/dt)",
    "clock-base": "after construction and one update the clock reads start at step 0",
    "clock-step": "one update from step n-1 (time start +/- (n-1)dt) gives step n, time start +/- n dt",
    "step2time": "step2time(n) == start +/- n dt",
    "time2step-inverse": "time2step(start +/- n dt) == n and step2time(time2step(t)) == t on step boundaries; floor in between",
    "isotime": "step2isotime(n) is the ISO text of start +/- n dt",
    "nctime": "nctime()/step2nctime(n, unit) == (time - reference)/unit for s, m, h, d",
    "cf-units": "cf_units(unit) names the unit and the reference time",
    "reject": "missing start/stop/dt and stop on the wrong side of start end in SystemExit",
    "output-time": "the time coordinate of every output record is (record's model time - reference) in the unit named by its units attribute, whatever start, reference, period, direction and skip_initial",
    "period-spellings": "int seconds, timedelta64, datetime.timedelta, [v, unit] and ISO PTxHyMzS denote the same duration",
    "period-malformed": "malformed period spellings raise ValueError",
    "iso-roundtrip": "normalize_period(duration2iso(d)) == d below one day; day-long durations are rejected, not mis-parsed",
}
BOUNDS = {
    "quick": "(output-time: Nsteps 1..4, period 1..2 steps, skip_initial symbolic, dt 60/3600, start/reference unbounded) start/stop/reference: any integer seconds with |t| <= 1e10; step n: any integer |n| <= 1e6; dt in {1, 7, 60, 3600} s; period values: any integer 0..1e6",
    "thorough": "as quick plus dt in {2, 3, 5, 11, 13, 86400, 100000} and a symbolic dt in 1..12",
}
ASSUMES = ["times within +-1e10 s of the epoch (datetime64[s] range used in practice); the epoch itself included (numpy's datetime64(0) is falsy)"]
OUTSIDE = "digit-count dependent formatting (zero padding) of symbolic numerals; leap seconds (numpy has none)"
BIG = 10 ** 10


def scenarios(tier):
    dts = [1, 7, 60, 3600] if tier == "quick" else [1, 2, 3, 5, 7, 11, 13, 60, 3600, 86400, 100000]
    out = []
    for dt in dts:
        for rev in (False, True):
            out.append(dict(name=f"clock-dt{dt}-{'rev' if rev else 'fwd'}", fn="clock", params=dict(dt=dt, rev=rev), cost=5))
    if tier != "quick":
        for rev in (False, True):
            out.append(dict(name=f"clock-dtsym-{'rev' if rev else 'fwd'}", fn="clock", params=dict(dt="sym", rev=rev), cost=20))
    for dt in (60, 3600):
        for rev in (False, True):
            out.append(dict(name=f"outtime-dt{dt}-{'rev' if rev else 'fwd'}", fn="outtime", params=dict(dt=dt, rev=rev), cost=8))
            if dt == 60:
                out.append(dict(name=f"outtime-dense-dt{dt}-{'rev' if rev else 'fwd'}", fn="outtime", params=dict(dt=dt, rev=rev, layout="dense"), cost=8))
    out.append(dict(name="reject", fn="reject", params={}, cost=1))
    out.append(dict(name="periods", fn="periods", params={}, cost=3))
    for shape in ("H", "M", "S", "HM", "HS", "MS", "HMS"):
        out.append(dict(name=f"iso-{shape}", fn="iso", params=dict(shape=shape), cost=1))
    out.append(dict(name="iso-roundtrip", fn="roundtrip", params={}, cost=5))
    out.append(dict(name="malformed", fn="malformed", params={}, cost=1))
    return out


def _timer(W, p):
    tk = W.load("ladim.timekeeper")
    dt, rev = p["dt"], p["rev"]
    if dt == "sym":
        dt = W.idx(W.int("dt", 1, 12))  # symbolic time step: every value explored by solver-enumerated forks
        p["dt"] = dt
    start = W.int("start", -BIG, BIG)
    dur = W.int("dur", 1, 10 ** 8)  # |stop - start| in seconds, any value (need not be a multiple of dt)
    ref = W.int("ref", -BIG, BIG)
    stop = start - dur if rev else start + dur
    timer = tk.TimeKeeper(start=W.dt(start), stop=W.dt(stop), dt=dt, reference=W.dt(ref), time_reversal=rev)
    return tk, timer, start, dur, ref


def clock(W, p):
    tk, timer, start, dur, ref = _timer(W, p)
    dt, rev = p["dt"], p["rev"]
    sgn = -1 if rev else 1
    N = timer.Nsteps
    W.prove(W.all([W.le(N * dt, dur), W.lt(dur, (N + 1) * dt)]), "nsteps")
    # base: construction + first update = step 0 at start time
    timer.update()
    W.prove(W.all([W.eq(timer.step, 0), W.eq(W.sec_of(timer.time), start)]), "clock-base")
    # inductive step from an arbitrary step number
    n = W.int("n", -10 ** 6, 10 ** 6)
    timer.step = n - 1
    timer.time = W.dt(start + sgn * (n - 1) * dt)
    timer.update()
    W.prove(W.all([W.eq(timer.step, n), W.eq(W.sec_of(timer.time), start + sgn * n * dt)]), "clock-step")
    # conversions
    W.prove(W.eq(W.sec_of(timer.step2time(n)), start + sgn * n * dt), "step2time")
    t_n = W.dt(start + sgn * n * dt)
    off = W.int("off", 0, dt - 1)  # a time inside step n (in simulation direction)
    t_in = W.dt(start + sgn * (n * dt + off))
    W.prove(W.all([W.eq(timer.time2step(t_n), n), W.eq(timer.time2step(t_in), n)]), "time2step-inverse")
    W.prove(W.eq(W.sec_of(timer.step2time(timer.time2step(t_n))), W.sec_of(t_n)), "time2step-inverse", dict(part="step2time(time2step(t)) == t"))
    iso = timer.step2isotime(n)
    W.prove(W.eq(W.sec_of(_parse_time(W, iso)), start + sgn * n * dt), "isotime")
    for unit, usec in (("s", 1), ("m", 60), ("h", 3600), ("d", 86400)):
        W.prove(W.eq(timer.step2nctime(n, unit) * usec, start + sgn * n * dt - ref), "nctime")
        W.prove(W.eq(timer.nctime(unit) * usec, W.sec_of(timer.time) - ref), "nctime")
        cu = timer.cf_units(unit)
        name, _, reft = cu.partition(" since ")
        W.prove(name == dict(s="seconds", m="minutes", h="hours", d="days")[unit] and W.truth(W.eq(W.sec_of(_parse_time(W, reft)), ref)), "cf-units")
    W.prove(W.eq(timer.step2nctime(n), start + sgn * n * dt - ref), "nctime")
    return ("clock", dt, rev)


def outtime(W, p):
    """time coordinate of output files: real TimeKeeper + State + Output driven as the main loop drives them"""
    from harness.common import ovar

    tk, st, out = W.load("ladim.timekeeper"), W.load("ladim.state"), W.load("ladim.out_netcdf")
    dt, rev = p["dt"], p["rev"]
    sgn = -1 if rev else 1
    N = W.idx(W.int("Nsteps", 1, 4))
    P = W.idx(W.int("period", 1, 2))
    skip = W.truth(W.bool("skip_initial"))
    start = W.int("start", -BIG, BIG)
    ref = W.int("ref", -BIG, BIG)
    extra = W.int("extra", 0, dt - 1)  # neither the duration nor the output period need be a whole number of steps
    stop = start + sgn * (N * dt + extra)
    timer = tk.TimeKeeper(start=W.dt(start), stop=W.dt(stop), dt=dt, reference=W.dt(ref), time_reversal=rev)
    S = st.State()
    S.append(X=1, Y=1, Z=1)
    tmp = W.scratch()

    class Grid:
        pass

    O = out.Output(dict(time=timer, state=S, grid=Grid()), filename=str(tmp / "o.nc"), output_period=P * dt + W.int("period_extra", 0, dt - 1), instance_variables=dict(pid=ovar("i4"), X=ovar("f8")), skip_initial=skip, layout=p.get("layout", "sparse"), numrec=W.idx(W.int("numrec", 0, 2)))
    for _ in range(N):
        timer.update()
        O.update()
    O.close()
    steps = [k * P for k in range(N) if k * P < N and not (skip and k == 0)]
    files = sorted(f for f in W.nc_files() if str(f).startswith(str(tmp)) and str(f).endswith(".nc"))
    if not files:
        W.prove(False, "output-time", dict(note="no output file"))
        return ("outtime", "nofile")
    t = []
    for f in files:  # o.nc, or o_000.nc, o_001.nc, ... in order
        d = W.nc_read(f)
        t += list(d["vars"]["time"])
    info = dict(N=N, P=P, skip_initial=skip, dt=dt, rev=rev)
    if len(t) != len(steps) or any(W.is_fill(x) for x in t):
        W.prove(False, "output-time", dict(info, records=len(t), expected=len(steps)))
        return ("outtime", "len")
    name, _, reft = d["atts"]["time"]["units"].partition(" since ")
    W.prove(name == "seconds" and W.truth(W.eq(W.sec_of(_parse_time(W, reft)), ref)), "output-time", dict(info, units=str(d["atts"]["time"]["units"])[:60]))
    W.prove(W.all([W.eq(x, start + sgn * s_ * dt - ref) for x, s_ in zip(t, steps)]), "output-time", info)
    return ("outtime", N, P, skip)


def _parse_time(W, s):
    if W.symbolic:
        return W.np.DT(s)
    import numpy as np

    return np.datetime64(s, "s")


def reject(W, p):
    tk = W.load("ladim.timekeeper")
    start = W.int("start", -BIG, BIG)
    d = W.int("d", 1, 10 ** 8)
    cases = [
        dict(start="", stop=W.dt(start + d), dt=60),
        dict(start=W.dt(start), stop="", dt=60),
        dict(start=W.dt(start), stop=W.dt(start + d), dt=0),
        dict(start=W.dt(start), stop=W.dt(start + d), dt=[0, "s"]),  # a zero or negative time step in any spelling
        dict(start=W.dt(start), stop=W.dt(start + d), dt="PT0S"),
        dict(start=W.dt(start), stop=W.dt(start + d), dt=-60),
        dict(start=W.dt(start), stop=W.dt(start + d), dt=[-1, "m"]),
        dict(start=W.dt(start), stop=W.dt(start - d), dt=60, time_reversal=False),
        dict(start=W.dt(start), stop=W.dt(start + d), dt=60, time_reversal=True),
    ]
    for i, kw in enumerate(cases):
        try:
            tk.TimeKeeper(**kw)
            ok = False
        except SystemExit:
            ok = True
        W.prove(ok, "reject", dict(case=i))
    # and the right direction is accepted
    tk.TimeKeeper(start=W.dt(start), stop=W.dt(start - d), dt=60, time_reversal=True)
    tk.TimeKeeper(start=W.dt(start), stop=W.dt(start + d), dt=60)
    return ("reject",)


def _secs(W, td):
    return W.sec_of(td)


def periods(W, p):
    tk = W.load("ladim.timekeeper")
    v = W.int("v", 0, 10 ** 6)
    W.prove(W.eq(_secs(W, tk.normalize_period(v)), v), "period-spellings")
    W.prove(W.eq(_secs(W, tk.normalize_period(W.td(v))), v), "period-spellings")
    # d as the shipped configuration files document it; D and W are numpy's own unit names, accepted by the pinned tree
    for unit, mult in (("s", 1), ("m", 60), ("h", 3600), ("d", 86400), ("D", 86400), ("W", 7 * 86400)):
        W.prove(W.eq(_secs(W, tk.normalize_period([v, unit])), v * mult), "period-spellings", dict(unit=unit))
        W.prove(W.eq(_secs(W, tk.normalize_period((v, unit))), v * mult), "period-spellings", dict(unit=unit, spelled="tuple (the TimeDelta alias names it)"))
    # datetime.timedelta cannot hold a symbolic value: concrete family
    for sec in (0, 1, 59, 60, 3599, 3600, 86399, 86400, 90061):
        W.prove(W.eq(_secs(W, tk.normalize_period(datetime.timedelta(seconds=sec))), sec), "period-spellings", dict(timedelta=sec))
    # ISO strings with leading zeros / several fields (concrete family; the symbolic shapes are in the iso scenarios)
    for text, sec in (("PT09M", 540), ("PT007H05S", 7 * 3600 + 5), ("PT0H0M1S", 1), ("PT1H30S", 3630), ("PT100M", 6000), ("PT25H61M61S", 25 * 3600 + 61 * 60 + 61), ("PT0S", 0), ("PT00S", 0)):
        W.prove(W.eq(_secs(W, tk.normalize_period(text)), sec), "period-spellings", dict(text=text))
    # [v, unit] with a bad unit or non-int value is rejected
    for bad in ([v, "x"], [v, "seconds"], ["3", "s"], [v], [v, "s", "s"], [v, ["m"]], [v, {"m": 1}], [v, None]):
        try:
            tk.normalize_period(bad)
            ok = False
        except (ValueError, TypeError):
            ok = True
        W.prove(ok, "period-malformed", dict(bad=repr(bad)[:60]))
    return ("periods",)


def iso(W, p):
    tk = W.load("ladim.timekeeper")
    shape = p["shape"]
    vals = {c: W.int("iso" + c, 0, 10 ** 6) for c in shape}
    text = "PT" + "".join(f"{vals[c]}{c}" for c in "HMS" if c in shape)
    expect = sum(vals[c] * dict(H=3600, M=60, S=1)[c] for c in shape)
    W.prove(W.eq(_secs(W, tk.normalize_period(text)), expect), "period-spellings", dict(shape=shape))
    return ("iso", shape)


def roundtrip(W, p):
    tk = W.load("ladim.timekeeper")
    d = W.int("d", 0, 10 ** 7)
    text = tk.duration2iso(W.td(d))
    if W.truth(d == 0):
        W.prove(text == "PT0S" and W.truth(W.eq(_secs(W, tk.normalize_period(text)), 0)), "iso-roundtrip")
        return ("zero",)
    if W.truth(d < 86400):
        W.prove(W.eq(_secs(W, tk.normalize_period(text)), d), "iso-roundtrip", dict(text=text))
        return ("subday", text.count("H"), text.count("M"), text.count("S"))
    # a day or longer: duration2iso writes PnDT..., which the PT grammar must reject
    try:
        got = tk.normalize_period(text)
        W.prove(W.eq(_secs(W, got), d), "iso-roundtrip", dict(text=text, note="accepted; must then be right"))
    except ValueError:
        W.prove(True, "iso-roundtrip")
    return ("days", "T" in text)


MALFORMED = ["", "PT", "P", "pt5s", "PT5s", "PT5M3H", "PT5S3M", "PT5S ", " PT5S", "PT5SX", "PT-5S", "PT5.5S", "P1DT5S", "PT5", "5S", "PTS", "PTHMS", "PT5H5H", "1h", "PT 5S", "PT5S\nPT5S"]


def malformed(W, p):
    tk = W.load("ladim.timekeeper")
    for s in MALFORMED:
        try:
            r = tk.normalize_period(s)
            ok = False
        except ValueError:
            ok = True
        W.prove(ok, "period-malformed", dict(text=s))
    import numpy as rnp

    for bad in (None, 3.5, {"a": 1}, ("a", "b"), "PT1H" + chr(10), [1, "10s"], [600, "generic"], True, [True, "h"],
                rnp.timedelta64(1500, "ms"), datetime.timedelta(seconds=1.5)):  # (sub-second values must not be truncated silently)
        try:
            tk.normalize_period(bad)
            ok = False
        except (ValueError, TypeError):
            ok = True
        W.prove(ok, "period-malformed", dict(value=repr(bad)))
    return ("malformed",)


def signature(v, scen):
    if scen["params"].get("rev") and v["clause"] in ("clock-base", "step2time", "time2step-inverse", "clock-step"):
        return f"{v['clause']}:reversed"
    return v["clause"]
