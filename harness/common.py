"""Shared helpers for harnesses that drive the whole real Model."""
from pathlib import Path

PLUG = Path(__file__).resolve().parent / "plugins"
T0 = 946684800 + 86400 * 3  # 2000-01-04T00:00:00


def ovar(dtype="f8", **att):
    return dict(encoding=dict(datatype=dtype), attributes=dict(att))


def base_config(W, *, start, stop, dt, release_file, rev=False, reference=None, advection="EF", u=0, v=0, w=0, temp=None,
                output=None, grid=None, ibm=None, state=None, tracker=None, release=None, warm_start=None):
    cfg = dict(
        state=dict(state or {}),
        time=dict(start=W.dt(start), stop=W.dt(stop), dt=dt, time_reversal=rev),
        grid=dict(module=str(PLUG / "pgrid.py"), **(grid or {})),
        forcing=dict(module=str(PLUG / "pforce.py"), u=u, v=v, w=w, temp=temp),
        release=dict(release_file=str(release_file), **(release or {})),
        tracker=dict(advection=advection, **(tracker or {})),
        ibm=dict(module=str(PLUG / "pibm.py"), **(ibm or {})),
        output=dict(output or {}),
        warm_start=dict(warm_start or {}),
    )
    if reference is not None:
        cfg["time"]["reference"] = W.dt(reference)
    return cfg


def run_main(W, config, hook=None):
    """the real ladim.main.main with configure() replaced by a function returning `config`;
    returns the Model instance (captured through Model.finish)"""
    mainmod = W.load("ladim.main")
    old_conf, old_model = mainmod.configure, mainmod.Model
    box = {}

    class Capture(old_model):
        def __init__(self, cfg):
            box["model"] = self
            super().__init__(cfg)
            if hook:
                hook(self)

    mainmod.configure = lambda f: config
    mainmod.Model = Capture
    try:
        mainmod.main("sx-config.yaml")
    finally:
        mainmod.configure, mainmod.Model = old_conf, old_model
    return box.get("model")


def build_model(W, config):
    model = W.load("ladim.model")
    return model.Model(config)
