"""Helpers for the tracker harnesses: real ROMS Grid on a symbolic mask/bathymetry, stage-velocity forcing."""
from harness import romsfile


def norm_sub(sg, L, M):
    if sg is None:
        return 1, L - 1, 1, M - 1
    return tuple(sg)


def roms_grid(W, L, M, N=2, sub=None, sym_mask=True, sym_h=False, pm=None, pn=None):
    roms = W.load("ladim.ROMS")
    tmp = W.scratch()
    if sym_mask:
        mask = [[W.ite(W.bool(f"sea_{j}_{i}"), 1, 0) for i in range(L)] for j in range(M)]
    else:
        mask = [[1] * L for _ in range(M)]
    h = [[(W.real(f"h_{j}_{i}", 1, 5000) if sym_h else 100) for i in range(L)] for j in range(M)]
    pmv = pm if pm is not None else W.frac(1, 800)
    pnv = pn if pn is not None else W.frac(1, 1600)  # anisotropic by default: dx = 800 m, dy = 1600 m
    gs = romsfile.grid_vars(L, M, N, h=h, mask=mask, pm=[[pmv] * L for _ in range(M)], pn=[[pnv] * L for _ in range(M)])
    romsfile.write(W, tmp / "grid.nc", gs)
    grid = roms.Grid(filename=str(tmp / "grid.nc"), subgrid=sub)
    return grid, mask, h


class StageForce:
    """forcing whose k-th velocity call returns given per-particle values; records the requests"""

    def __init__(self, W, values, w=None):
        self.W, self.values = W, values
        self.calls = []
        self.variables = {}
        if w is not None:
            self.variables["w"] = w

    def velocity(self, X, Y, Z, fractional_step=0, method="bilinear"):
        k = len(self.calls)
        self.calls.append((self.W.tolist(X), self.W.tolist(Y), fractional_step))
        return self.W.arr(self.values(k, "u"), "f"), self.W.arr(self.values(k, "v"), "f")


class DtBox:
    def __init__(self, sec):
        self.sec = sec

    def __truediv__(self, other):
        return self.sec


class Timer:
    def __init__(self, sec):
        self.dt = DtBox(sec)
        self.step = 0


NSTAGES = dict(EF=1, RK2=2, RK4=4)
# effective velocity weights of the schemes (C01 proves them)
BWEIGHTS = dict(EF=[1], RK2=[0, 1], RK4=[(1, 6), (1, 3), (1, 3), (1, 6)])


def in_valid(W, grid, x, y):
    return W.all([W.lt(grid.i0 + W.frac(1, 2), x), W.lt(x, grid.i1 - 1 - W.frac(1, 2)), W.lt(grid.j0 + W.frac(1, 2), y), W.lt(y, grid.j1 - 1 - W.frac(1, 2))])
