"""C07 every scheduled output time is written — the real main loop, Model, TimeKeeper, Output
(ragged and dense), filename_generator over symbolic (Nsteps, period, numrec)."""
from harness.common import T0, base_config, ovar, run_main

PROPERTY = "C07"
CLAUSES = {
    "no-crash": "the run ends normally",
    "record-times": "exactly one record per output time start + k*period in [start, stop), in order, across the files",
    "file-split": "files are named by the documented numbering and hold numrec records each (the last possibly fewer)",
    "all-closed": "every output file is closed at the end",
    "record-values": "each record holds the state of that step (same closed form whether split or not)",
    "particle-vars": "particle variables are present in every file for all particles released so far",
    "file-numbering": "filename_generator yields the documented sequence: <stem>_000, _001, ... for a plain name; a name ending in _<digits> continues from that number keeping the width (growing when needed), parent directory and suffix preserved",
    "counter-induction": "one Output.update() from ANY counter state satisfying the schedule invariant (records so far = ceil(step/period), position in file = records mod numrec, ...) raises nothing and re-establishes the invariant at the next step; with the base case from the constructor this covers every (Nsteps, step) without bound",
}
BOUNDS = {
    "quick": "induction: period 1..3 x numrec 0..3 with Nsteps and step unbounded (<= 1e9); bounded runs: Nsteps 1..6, period 1..3 steps, numrec 0..3 (all 72 triples via solver-enumerated forks), sparse+dense, with/without particle variable, forward+reversed; positions/velocity symbolic",
    "thorough": "Nsteps 1..8, period 1..4, numrec 0..4 (160 triples) x release step x death step x skip_initial, both layouts, both directions",
}
ASSUMES = ["output period is a whole number of time steps; duration a whole number of steps", "one particle released at a symbolic step 0..Nsteps-1 (values symbolic; records before the release are empty), constant symbolic velocity, one death at a symbolic step (or never)", "skip_initial symbolic (the initial record is then neither written nor counted)"]
OUTSIDE = "warm start (C08); NetCDF library internals (stub validated against real netCDF4 by the replays)"
DT = 600


def scenarios(tier):
    q = tier == "quick"
    out = []
    for layout in ("sparse", "dense"):
        for rev in (False, True):
            for pv in (False, True):
                if q and layout == "dense" and rev:
                    continue
                out.append(dict(name=f"{layout}-{'rev' if rev else 'fwd'}-{'pv' if pv else 'nopv'}", fn="run",
                                params=dict(layout=layout, rev=rev, pv=pv, nmax=6 if q else 8, pmax=3 if q else 4, rmax=3 if q else 4), cost=10, max_paths=80000))
    out.append(dict(name="file-numbering", fn="numbering", params={}, cost=1))
    for P in ((1, 2, 3) if q else (1, 2, 3, 4, 5, 7)):
        for R in ((0, 1, 2, 3) if q else (0, 1, 2, 3, 4, 5)):
            out.append(dict(name=f"induction-P{P}-R{R}", fn="induction", params=dict(P=P, R=R), cost=1))
    return out


class _SinkVar:
    def __setitem__(self, key, val):
        pass

    def __setattr__(self, k, v):
        pass


class _Sink:
    """stands for 'the currently open output file' in the inductive step: accepts every write"""

    def __init__(self):
        self.closed = 0
        self.variables = _Vars()

    def sync(self):
        if self.closed:
            raise RuntimeError("NetCDF: Not a valid ID")

    def close(self):
        if self.closed:
            raise RuntimeError("NetCDF: Not a valid ID")
        self.closed += 1

    def isopen(self):
        return not self.closed

    def __setattr__(self, k, v):
        object.__setattr__(self, k, v)


class _Vars(dict):
    def __missing__(self, k):
        if k == "__w__":
            raise KeyError(k)
        v = _SinkVar()
        return v


def _ceil_div(W, a, b):
    return -((-a) // b)


def induction(W, p):
    """unbounded in Nsteps and step: arbitrary counters satisfying the invariant, one real Output.update()"""
    P, R = p["P"], p["R"]
    out = W.load("ladim.out_netcdf")
    tk, st = W.load("ladim.timekeeper"), W.load("ladim.state")
    tmp = W.scratch()
    timer = tk.TimeKeeper(start=W.dt(T0), stop=W.dt(T0 + 4 * P * DT), dt=DT)
    S = st.State(particle_variables=dict(w0=float))
    S.append(X=1, Y=1, Z=1, w0=3)
    ivars = dict(pid=ovar("i4"), X=ovar("f8"))
    O = out.Output(dict(time=timer, grid=None, state=S), str(tmp / "out.nc"), P * DT, ivars, particle_variables=dict(w0=ovar("f8")), numrec=R)
    first = O.nc
    # ---- arbitrary state
    N = W.int("Nsteps", 1, 10 ** 9)
    s = W.int("step", 0, 10 ** 9)
    W.assume(W.lt(s, N), "0 <= step < Nsteps")
    Reff = R if R else 999999
    nr = _ceil_div(W, N, P)
    if not R:
        W.assume(W.lt(nr, 999999), "single-file output: fewer than 999999 records (the sentinel used for 'no split')")
    rc = _ceil_div(W, s, P)  # records written before this step
    lrc = rc % Reff
    lnr_expr = lambda rc_, lrc_: W_min(W, Reff, nr - (rc_ - lrc_))  # noqa: E731
    O.num_records = nr
    O.record_count = rc
    O.local_record_count = lrc
    O.local_num_records = lnr_expr(rc, lrc)
    O.local_instance_count = 0
    O.instance_count = 0
    sink = _Sink()
    O.nc = sink
    first.close()

    class T:
        pass

    tstub = T()
    tstub.step = s
    tstub.time = timer.time
    O.modules = dict(O.modules, time=tstub)
    O.update()
    due = W.truth(W.eq(s % P, 0))
    rc2 = rc + 1 if due else rc
    lrc2 = rc2 % Reff
    finished_all = W.eq(rc2, nr)
    conds = [W.eq(O.record_count, rc2), W.eq(O.num_records, nr)]
    # invariant at the next step: ceil((s+1)/P) records
    conds.append(W.eq(rc2, _ceil_div(W, s + 1, P)))
    if W.truth(finished_all):
        # last record written: the file is closed and no new one is opened
        conds.append(sink.closed == 1 if due else True)
        conds.append(O.nc is sink)
    else:
        conds.append(W.eq(O.local_record_count, lrc2))
        conds.append(W.eq(O.local_num_records, lnr_expr(rc2, lrc2)))
        conds.append(W.all([W.le(0, O.local_record_count), W.lt(O.local_record_count, O.local_num_records)]))
        rolled = O.nc is not sink
        conds.append(rolled == (due and W.truth(W.eq(lrc2, 0))))
        if rolled:
            conds.append(sink.closed == 1)
            O.nc.close()
        else:
            conds.append(sink.closed == 0)
    W.prove(W.all(conds), "counter-induction", dict(P=P, R=R, due=due))
    return (P, R, due, W.truth(finished_all))


def numbering(W, p):
    from pathlib import Path

    out = W.load("ladim.out_netcdf")
    cases = []
    for stem, suffix in (("out", ".nc"), ("a_b", ".nc"), ("run2", ".nc"), ("x_1_y", ".nc4"), ("cake", "")):
        cases.append((f"sub/dir/{stem}{suffix}", [f"sub/dir/{stem}_{k:03d}{suffix}" for k in range(4)]))
    for width in (1, 2, 3, 4):
        for n in (0, 4, 8, 9, 10, 98, 99, 100, 998, 999, 1000, 9998):
            if len(str(n)) > width:
                continue
            name = f"res/out_{n:0{width}d}.nc"
            cases.append((name, [f"res/out_{n + k:0{width}d}.nc" for k in range(4)]))
    cases.append(("x_1_2.nc", ["x_1_2.nc", "x_1_3.nc", "x_1_4.nc"]))
    for name, exp in cases:
        g = out.filename_generator(Path(name))
        got = [str(next(g)) for _ in exp]
        W.prove(got == exp, "file-numbering", dict(name=name, got=got, expected=exp))
    return ("numbering", len(cases))


def W_min(W, a, b):
    if W.symbolic:
        return W.core.s_min2(a, b)
    return min(a, b)


def run(W, p):
    N = W.idx(W.int("Nsteps", 1, p["nmax"]))
    P = W.idx(W.int("period", 1, p["pmax"]))
    R = W.idx(W.int("numrec", 0, p["rmax"]))
    rev, layout = p["rev"], p["layout"]
    sgn = -1 if rev else 1
    x0 = W.real("x0", 5, 15)
    u = W.real("u", -W.frac(1, 100), W.frac(1, 100))
    # the particle may be released later than the start (records before that are empty but must still be written),
    # and the initial record may be switched off
    r0 = W.idx(W.int("release_step", 0, N - 1)) if p.get("late", True) else 0
    skip = W.truth(W.bool("skip_initial")) if p.get("skip", True) else False
    # the particle may die (IBM, after the move of step kd; kd = N: never): nobody alive must not end the schedule
    kd = W.idx(W.int("kill_step", r0, N))
    tmp = W.scratch()
    W.table(tmp / "r.rls", ["release_time", "X", "Y", "Z", "w0"], [[W.dt(T0 + sgn * r0 * DT), x0, 10, 5, W.real("w0")]])
    ivars = dict(pid=ovar("i4"), X=ovar("f8"))
    pvars = dict(w0=ovar("f8")) if p["pv"] else None
    cfg = base_config(W, start=T0, stop=T0 + sgn * N * DT, dt=DT, rev=rev, release_file=tmp / "r.rls", u=u,
                      state=dict(particle_variables=dict(w0=float)), ibm=dict(kill=({kd: {0: True}} if kd < N else {})),
                      output=dict(filename=str(tmp / "out.nc"), output_period=P * DT, instance_variables=ivars, particle_variables=pvars, layout=layout, numrec=R, skip_initial=skip))
    run_main(W, cfg)
    # ---- oracle
    steps = [k * P for k in range(N) if k * P < N and not (skip and k == 0)]
    nrec = len(steps)
    info = dict(N=N, P=P, R=R, release_step=r0, skip_initial=skip, kill_step=kd)
    if R == 0 or nrec == 0:
        names = ["out.nc"] if R == 0 else ["out_000.nc"]
        split = [nrec]
    else:
        nfiles = -(-nrec // R)
        names = [f"out_{i:03d}.nc" for i in range(nfiles)]
        split = [min(R, nrec - i * R) for i in range(nfiles)]
    got_files = sorted(f for f in W.nc_files() if f.endswith(".nc"))
    exp_files = sorted(str(tmp / n) for n in names)
    W.prove(got_files == exp_files, "file-split", dict(info, got=[f.split("/")[-1] for f in got_files], expected=names))
    if got_files != exp_files:
        return (N, P, R, "files")
    W.prove(all(W.nc_is_closed(f) for f in exp_files), "all-closed", info)
    ref = T0 + sgn * N * DT if rev else T0
    times, recs = [], []
    ok_split = True
    okpv = True
    pvconds = []
    k = 0
    for n, cnt in zip(names, split):
        d = W.nc_read(tmp / n)
        t = d["vars"]["time"]
        if len(t) != cnt:
            ok_split = False
        times += t
        if layout == "sparse":
            pc = d["vars"]["particle_count"]
            off = 0
            for r in range(len(t)):
                c = pc[r]
                if W.is_fill(c):
                    recs.append(None)
                    continue
                recs.append(list(d["vars"]["X"][off:off + int(c)]))
                off += int(c)
        else:
            for r in range(len(t)):
                row = d["vars"]["X"][r] if r < len(d["vars"]["X"]) else []
                recs.append([v for v in row if not W.is_fill(v)])
        if p["pv"] and cnt:
            # when the file was finished (at its last record) the particle variables of everybody released so far were written
            last = steps[min(k + cnt, nrec) - 1]
            w = d["vars"].get("w0")
            want = 1 if r0 <= last else 0
            okpv = okpv and w is not None and len(w) == want and not any(W.is_fill(x) for x in w)
            if okpv and want:
                pvconds.append(W.eq(w[0], W_var(W, "w0")))
        k += cnt
    W.prove(ok_split, "file-split", dict(info, note="records per file"))
    exp_t = [T0 + sgn * s * DT - ref for s in steps]
    if len(times) == nrec and not any(W.is_fill(a) for a in times):
        W.prove(W.all([W.eq(a, b) for a, b in zip(times, exp_t)]), "record-times", info)
    else:
        W.prove(False, "record-times", dict(info, got=len(times), expected=nrec))
    if len(recs) == nrec:
        conds = []
        for rec, s_ in zip(recs, steps):
            if rec is None or len(rec) != (1 if r0 <= s_ <= kd else 0):
                conds.append(False)
            elif rec:
                conds.append(W.eq(rec[0], x0 + u * W.frac(DT, 100) * (s_ - r0)))
        W.prove(W.all(conds) if all(c is not False for c in conds) else False, "record-values", info)
    if p["pv"]:
        W.prove(okpv and W.truth(W.all(pvconds)) if not W.symbolic else (W.all(pvconds) if okpv else False), "particle-vars", info)
    return (N, P, R, r0, skip, kd)


def W_var(W, name):
    if W.symbolic:
        return W.core.SN(W.E.vars[name])
    return W._val(name)


def signature(v, scen):
    m = v.get("model") or {}
    N, P = m.get("Nsteps"), m.get("period")
    cls = "Nsteps%period!=0" if N is not None and P and N % P else "Nsteps%period==0"
    if v["kind"] == "crash":
        return f"crash:{v['info'].get('exception')}:{cls}"
    return f"{v['clause']}:{cls}"
