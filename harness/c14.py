"""C14 independence, reproducibility, time-shift — relational runs of the whole real Model with the
real ROMS Grid/Forcing (depth-dependent symbolic currents), ParticleReleaser, Tracker, Output:
a particle's records are compared between a run with and a run without other particles (some of
which die), between two executions, and between a run and its copy shifted by whole steps."""
from harness import romsfile
from harness.common import PLUG, T0, base_config, ovar, run_main

PROPERTY = "C14"
CLAUSES = {
    "no-crash": "every run of the pair ends normally",
    "others-do-not-matter": "a particle's trajectory and forcing variable are the same whether or not other release rows exist and whether or not other particles die",
    "reproducible": "repeating the run reproduces every output value",
    "time-shift": "shifting start, stop, forcing frames and release times by the same number of whole steps leaves every trajectory unchanged",
}
BOUNDS = {
    "quick": "(module level: Forcing.velocity for the survivor alone after the first particle was removed since update(), symbolic fields/masks/depths on a 7x6 grid) 6x6 ROMS grid with a sloping bottom, 3 levels, currents depending on level and frame (time interpolated, concrete values), 2 release rows at symbolic depths, one IBM death at a symbolic step, records every step or every 2nd step, sparse and dense layout, EF and RK2; shift by a symbolic number of steps in [-5, 5]; Nsteps 3",
    "thorough": "Nsteps 4, RK4, all layout/scheme/period combinations, reordered rows sharing a release time",
}
ASSUMES = ["equality over the reals (bit-for-bit equality holds where both runs build the same operation sequence; rounding is outside the claim)"]
OUTSIDE = "diffusion on (random draws differ between runs by design)"
DT = 600
L, M, N = 6, 6, 3


def scenarios(tier):
    q = tier == "quick"
    out = []
    combos = [("sparse", "EF", 1), ("sparse", "RK2", 2), ("dense", "EF", 1)] if q else [(l, a, pp) for l in ("sparse", "dense") for a in ("EF", "RK2", "RK4") for pp in (1, 2)]
    for layout, adv, per in combos:
        out.append(dict(name=f"others-{layout}-{adv}-p{per}", fn="others", params=dict(layout=layout, adv=adv, per=per, nsteps=3 if q else 4), cost=10))
    # vertical advection switched on (the vertical velocity is one more per-particle forcing array)
    out.append(dict(name="others-sparse-EF-p1-ibmfield", fn="others", params=dict(layout="sparse", adv="EF", per=1, nsteps=3, degdays=True, rbmax=1), cost=12))
    out.append(dict(name="others-sparse-EF-p1-ibmdirect", fn="others", params=dict(layout="sparse", adv="EF", per=1, nsteps=3, degdays="direct", rbmax=0), cost=12))
    out.append(dict(name="others-sparse-EF-p1-vertadv", fn="others", params=dict(layout="sparse", adv="EF", per=1, nsteps=2 if q else 3, vertadv=True, rbmax=0 if q else 1), cost=12))
    # module level: a velocity request for the survivor alone after the other particle (first in the arrays) was removed since
    # Forcing.update() - the real ROMS Forcing on symbolic fields, masks and depths (the C02 two-particle scenario)
    out.append(dict(name="velocity-after-removal", fn="velocity_after_removal", params=dict(N=3, sub=[1, 6, 1, 5], packed=False, two=True, removal_clause="others-do-not-matter"), cost=40))
    if not q:
        out.append(dict(name="reorder-sparse-EF", fn="reorder", params=dict(layout="sparse", adv="EF", nsteps=3), cost=10))
        out.append(dict(name="reorder-dense-RK2", fn="reorder", params=dict(layout="dense", adv="RK2", nsteps=3), cost=10))
    out.append(dict(name="reproducible", fn="repro", params=dict(nsteps=3), cost=5))
    out.append(dict(name="time-shift", fn="shift", params=dict(nsteps=3), cost=5))
    return out


def _files(W, tmp, t_first, uvals, frames=None):
    """grid + forcing file with frames at steps -1, 1, 3, 6 (relative to t_first); u depends on level and frame"""
    ones = [[1] * L for _ in range(M)]
    # sloping bottom: the level depths differ from cell to cell (a particle handed another cell's column gets other levels)
    gs = romsfile.grid_vars(L, M, N, h=[[60 + 10 * i + 7 * j for i in range(L)] for j in range(M)], mask=ones, pm=[[W.frac(1, 800)] * L for _ in range(M)], pn=[[W.frac(1, 800)] * L for _ in range(M)])
    frames = frames or [-1, 1, 3, 6]  # unevenly spaced; steps 0 and 2 lie between frames
    u = [[[[uvals[(f, k)] for i in range(L - 1)] for j in range(M)] for k in range(N)] for f in range(len(frames))]
    v = [[[[0 for i in range(L)] for j in range(M - 1)] for k in range(N)] for f in range(len(frames))]
    temp = [[[[uvals[(f, k)] * 10 for i in range(L)] for j in range(M)] for k in range(N)] for f in range(len(frames))]
    # a weak vertical velocity field (used by the scenarios with vertical advection only)
    wf = [[[[W.frac((f + 1) * (k + 1), 1000) for i in range(L)] for j in range(M)] for k in range(N)] for f in range(len(frames))]
    fs = romsfile.forcing_vars([t_first + m * DT - romsfile.REFSEC for m in frames], u, v, extra=dict(temp=temp, w=wf))
    romsfile.write(W, tmp / "ocean.nc", gs, fs)


def _run(W, tmp, sub, rows, t0, nsteps, uvals, layout="sparse", adv="EF", per=1, kill=None, vertadv=False, degdays=False):
    direct = degdays == "direct"
    sub.mkdir(exist_ok=True)
    W.table(sub / "r.rls", ["release_time", "X", "Y", "Z"], rows)
    ivars = dict(pid=ovar("i4"), X=ovar("f8"), Y=ovar("f8"), Z=ovar("f8"), temp=ovar("f8"))
    cfg = base_config(W, start=t0, stop=t0 + nsteps * DT, dt=DT, release_file=sub / "r.rls", advection=adv,
                      state=dict(instance_variables=dict(temp=float), default_values=dict(temp=0)),
                      ibm=dict(kill=kill or {}),
                      output=dict(filename=str(sub / "out.nc"), output_period=per * DT, instance_variables=ivars, layout=layout))
    cfg["grid"] = dict(module="ladim.ROMS", filename=str(tmp / "ocean.nc"))
    cfg["forcing"] = dict(module="ladim.ROMS", filename=str(tmp / "ocean.nc"), extra_forcing=["temp"])
    if degdays:
        # an IBM that reads the temperature through forcing.field() and accumulates it
        cfg["ibm"]["degdays"] = "temp"
        cfg["ibm"]["direct"] = direct
        cfg["ibm"]["ucur"] = True
        cfg["state"]["instance_variables"]["ucur"] = float
        cfg["state"]["default_values"]["ucur"] = 0
        cfg["output"]["instance_variables"]["ucur"] = ovar("f8")
        cfg["state"]["instance_variables"]["degdays"] = float
        cfg["state"]["default_values"]["degdays"] = 0
        cfg["output"]["instance_variables"]["degdays"] = ovar("f8")
    if vertadv:
        cfg["forcing"]["extra_forcing"] = ["temp", "w"]
        cfg["state"]["instance_variables"]["w"] = float
        cfg["state"]["default_values"]["w"] = 0
        cfg["tracker"]["vertical_advection"] = True
    run_main(W, cfg)
    return W.nc_read(sub / "out.nc")


def _tracks(W, d, layout, npids, extra=()):
    """-> {pid: [(record, X, Y, Z, temp)]}"""
    V = d["vars"]
    out = {}
    nrec = len(V["time"])
    if layout == "sparse":
        off = 0
        for r in range(nrec):
            c = int(V["particle_count"][r])
            for q in range(c):
                pid = int(V["pid"][off + q])
                out.setdefault(pid, []).append((r, V["X"][off + q], V["Y"][off + q], V["Z"][off + q], V["temp"][off + q], *[V[e][off + q] for e in extra]))
            off += c
    else:
        for r in range(nrec):
            for pid in range(npids):
                row = V["X"][r]
                if pid < len(row) and not W.is_fill(row[pid]):
                    out.setdefault(pid, []).append((r, V["X"][r][pid], V["Y"][r][pid], V["Z"][r][pid], V["temp"][r][pid], *[V[e][r][pid] for e in extra]))
    return out


def _uvals(W):
    # concrete, level- and frame-dependent (depth dependence and time interpolation are exercised; positions and depths are the
    # symbolic inputs, and with v = 0 every query stays linear)
    return {(f, k): W.frac((f + 1) * (3 * k + 1), 200) for f in range(4) for k in range(N)}


def others(W, p):
    nsteps, layout = p["nsteps"], p["layout"]
    tmp = W.scratch()
    uv = _uvals(W)
    _files(W, tmp, T0, uv)
    xa, xb = W.frac(11, 4), W.frac(13, 5)  # horizontal start positions concrete (rounding forks are C02/C09's subject); depths symbolic
    za, zb = W.real("za", 0, 99), W.real("zb", 0, 99)
    rb = W.idx(W.int("release_b", 0, p.get("rbmax", 2)))  # the observed particle may be released with or (one or two steps, on and off a forcing frame) after the other one: alone, it then enters an empty model
    kstep = W.idx(W.int("killstep", 0, nsteps - 1))
    kflag = W.bool("killflag")
    rowA = [W.dt(T0), xa, 3, za]  # the "other" particle (pid 0): may be killed
    rowB = [W.dt(T0 + rb * DT), xb, W.frac(5, 2), zb]  # the observed particle
    both = _run(W, tmp, tmp / "both", [rowA, rowB], T0, nsteps, uv, layout, p["adv"], p["per"], kill={kstep: {0: kflag}}, vertadv=p.get("vertadv", False), degdays=p.get("degdays", False))
    alone = _run(W, tmp, tmp / "alone", [rowB], T0, nsteps, uv, layout, p["adv"], p["per"], vertadv=p.get("vertadv", False), degdays=p.get("degdays", False))
    extra = ("degdays", "ucur") if p.get("degdays") else ()
    tb = _tracks(W, both, layout, 2, extra).get(1, [])
    ta = _tracks(W, alone, layout, 1, extra).get(0, [])
    conds = [len(tb) == len(ta)]
    for (r1, *v1), (r2, *v2) in zip(tb, ta):
        conds.append(r1 == r2)
        conds += [W.eq(a, b) for a, b in zip(v1, v2)]
    W.prove(W.all(conds), "others-do-not-matter", dict(layout=layout, scheme=p["adv"], killstep=kstep, release_b=rb, records_with_others=len(tb), records_alone=len(ta)))
    return (rb, kstep)


def reorder(W, p):
    """two rows with the same release time in either file order: each particle's track is the same up to renumbering"""
    tmp = W.scratch()
    uv = _uvals(W)
    _files(W, tmp, T0, uv)
    za, zb = W.real("za", 0, 99), W.real("zb", 0, 99)
    rowA = [W.dt(T0), W.frac(11, 4), 3, za]
    rowB = [W.dt(T0), W.frac(13, 5), W.frac(5, 2), zb]
    ab = _tracks(W, _run(W, tmp, tmp / "ab", [rowA, rowB], T0, p["nsteps"], uv, p["layout"], p["adv"]), p["layout"], 2)
    ba = _tracks(W, _run(W, tmp, tmp / "ba", [rowB, rowA], T0, p["nsteps"], uv, p["layout"], p["adv"]), p["layout"], 2)
    conds = []
    for first, second in ((0, 1), (1, 0)):
        t1, t2 = ab.get(first, []), ba.get(second, [])
        conds.append(len(t1) == len(t2))
        for (r1, *v1), (r2, *v2) in zip(t1, t2):
            conds.append(r1 == r2)
            conds += [W.eq(a, b) for a, b in zip(v1, v2)]
    W.prove(W.all(conds), "others-do-not-matter", dict(kind="reordered rows", layout=p["layout"], scheme=p["adv"]))
    return ("reorder",)


def repro(W, p):
    tmp = W.scratch()
    uv = _uvals(W)
    _files(W, tmp, T0, uv)
    rows = [[W.dt(T0), W.frac(11, 4), 3, W.real("za", 0, 99)], [W.dt(T0 + DT), W.frac(13, 5), W.frac(5, 2), W.real("zb", 0, 99)]]
    r1 = _run(W, tmp, tmp / "one", rows, T0, p["nsteps"], uv)
    r2 = _run(W, tmp, tmp / "two", rows, T0, p["nsteps"], uv)
    conds = []
    for var in ("time", "particle_count", "pid", "X", "Y", "Z", "temp"):
        a, b = r1["vars"][var], r2["vars"][var]
        conds.append(len(a) == len(b))
        conds += [W.eq(x, y) for x, y in zip(a, b)]
    W.prove(W.all(conds), "reproducible")
    return ("repro",)


def shift(W, p):
    tmp = W.scratch()
    (tmp / "s").mkdir()
    uv = _uvals(W)
    k = W.int("shift_steps", -5, 5)
    xa, za = W.frac(11, 4), W.real("za", 0, 99)
    xb, zb = W.frac(13, 5), W.real("zb", 0, 99)
    _files(W, tmp, T0, uv)
    base = _run(W, tmp, tmp / "base", [[W.dt(T0), xa, 3, za], [W.dt(T0 + DT), xb, W.frac(5, 2), zb]], T0, p["nsteps"], uv)
    t1 = T0 + k * DT
    _files(W, tmp / "s", t1, uv)
    moved = _run(W, tmp / "s", tmp / "s" / "run", [[W.dt(t1), xa, 3, za], [W.dt(t1 + DT), xb, W.frac(5, 2), zb]], t1, p["nsteps"], uv)
    conds = []
    for var in ("particle_count", "pid", "X", "Y", "Z", "temp"):
        a, b = base["vars"][var], moved["vars"][var]
        conds.append(len(a) == len(b))
        conds += [W.eq(x, y) for x, y in zip(a, b)]
    # the time coordinate is relative to each run's own start
    conds += [W.eq(x, y) for x, y in zip(base["vars"]["time"], moved["vars"]["time"])]
    W.prove(W.all(conds), "time-shift")
    return ("shift",)


def velocity_after_removal(W, p):
    from harness import c02

    return c02.interp(W, p)


def signature(v, scen):
    return f"{v['clause']}:{scen['params'].get('layout', '')}"
