"""C20 impossible set-ups are refused — the real Model construction (TimeKeeper, ROMS Grid and
Forcing with scan_file_times / forcing_steps, ParticleReleaser, configure) on stub files with a
symbolic fault parameter per fault class; a recording output plug-in shows that nothing is written."""
from harness import romsfile
from harness.common import PLUG, T0, base_config, build_model

PROPERTY = "C20"
CLAUSES = {
    "control-accepted": "the fault-free base scenario constructs and runs (vacuity guard for every fault class)",
    "forcing-coverage": "forcing that starts after the earliest or ends before the latest simulated time is refused",
    "forcing-order": "forcing frames out of order or duplicated (within or across files) are refused",
    "time-setup": "missing start/stop/dt or stop on the wrong side of start is refused",
    "release-window": "a release table with no row in [start, stop) is refused",
    "release-position": "release rows with neither X, Y nor lon, lat are refused; a missing or unnamed release file is refused",
    "files-and-sections": "missing grid / forcing / warm-start / configuration file and missing mandatory sections are refused",
    "subgrid": "a subgrid violating 1 <= i0 < i1 <= imax-1 (j likewise) is refused",
    "no-output": "a refused set-up writes no output record",
}
BOUNDS = {
    "quick": "base scenarios: forward/reversed x 1 or 2 forcing files (3 frames) x discrete/continuous release, Nsteps 3; fault parameters symbolic: coverage faults in whole seconds (frames off the step grid, duration with a symbolic sub-step remainder), frame order offsets in [-4, 8] steps, release steps in [-6, 10], subgrid integers in [-9, 9] on a non-square 12x8 grid; two frames inside one model step (symbolic offset 1..dt-1); the only release row after the last whole step (symbolic remainder 1..dt-1); only mult = 0 rows in the window; plug-in module that does not exist (exit status)",
    "thorough": "same with 4 frames and Nsteps 4",
}
ASSUMES = ["any exception (SystemExit or other) before the first record counts as refusal; the exception class is listed"]
OUTSIDE = "faults not in the property's list (e.g. NaN fields, wrong units strings)"
DT = 600
L, M, N = 6, 6, 2
INDEX_MODE = "python"  # an index outside an array raises IndexError as in numpy (counted as a refusal); kernel bounds are C17's subject


def scenarios(tier):
    out = []
    for rev in (False, True):
        for files in (1, 2):
            for cont in (False, True):
                tag = f"{'rev' if rev else 'fwd'}-f{files}-{'cont' if cont else 'disc'}"
                for fault in ("coverage-start", "coverage-stop", "order", "release-window"):
                    out.append(dict(name=f"{fault}-{tag}", fn="run", params=dict(rev=rev, files=files, cont=cont, fault=fault), cost=5))
    for fault in ("time", "release-position", "files", "subgrid", "sections"):
        out.append(dict(name=fault, fn="run", params=dict(rev=False, files=1, cont=False, fault=fault), cost=5))
    return out


def _world(W, p, frames_at, rel_steps, tmp, subgrid=None, relcols=("release_time", "X", "Y", "Z"), per_file=None, frame_secs=None, stop_extra=0, dims=None, mults=None):
    """files + configuration for one set-up; frames_at / rel_steps in simulation steps (frame_secs: the same in seconds, for
    frames off the step grid; stop_extra: seconds by which the duration exceeds a whole number of steps)"""
    if frame_secs is None:
        frame_secs = [m * DT for m in frames_at]
    rev = p["rev"]
    sgn = -1 if rev else 1
    L, M = dims or (globals()["L"], globals()["M"])
    ones = [[1] * L for _ in range(M)]
    gs = romsfile.grid_vars(L, M, N, h=[[100] * L for _ in range(M)], mask=ones, pm=[[W.frac(1, 800)] * L for _ in range(M)], pn=[[W.frac(1, 800)] * L for _ in range(M)])
    romsfile.write(W, tmp / "grid.nc", gs)
    zu = [[[0] * (L - 1) for _ in range(M)] for _ in range(N)]
    zv = [[[0] * L for _ in range(M - 1)] for _ in range(N)]
    # files hold the frames in the order given (physical order = simulation order, reversed when time is reversed)
    order = list(range(len(frame_secs)))
    if rev:
        order = order[::-1]
    per_file = per_file or ([len(order)] if p["files"] == 1 else [len(order) - 1, 1])
    k = 0
    for fi, nfr in enumerate(per_file):
        idx = order[k:k + nfr]
        times = [T0 + sgn * frame_secs[i] - romsfile.REFSEC for i in idx]
        fs = romsfile.forcing_vars(times, [zu for _ in idx], [zv for _ in idx])
        dims = dict(fs[0], xi_rho=L, eta_rho=M, xi_u=L - 1, eta_u=M, xi_v=L, eta_v=M - 1, s_rho=N)
        W.nc_file(tmp / f"f_{fi:03d}.nc", dims, fs[1])
        k += nfr
    rows = []
    for s in rel_steps:
        row = [W.dt(T0 + sgn * s * DT)] + ([3, 3, 5] if "X" in relcols else [5])
        if mults is not None:
            row.append(mults[len(rows)])
        rows.append(row)
    W.table(tmp / "r.rls", list(relcols), rows)
    log = []
    cfg = base_config(W, start=T0, stop=T0 + sgn * (3 * DT + stop_extra), dt=DT, rev=rev, release_file=tmp / "r.rls",
                      output=dict(module=str(PLUG / "pout.py"), output_period=DT, log=log))
    cfg["grid"] = dict(module="ladim.ROMS", filename=str(tmp / "grid.nc"))
    if subgrid is not None:
        cfg["grid"]["subgrid"] = subgrid
    cfg["forcing"] = dict(module="ladim.ROMS", filename=str(tmp / "f_*.nc"))
    if p["cont"]:
        cfg["release"].update(continuous=True, release_frequency=DT)
    cfg["ibm"] = dict()
    return cfg, log


def _attempt(W, cfg, log, steps=3):
    """-> (refused?, exception name, records written)"""
    try:
        model = build_model(W, cfg)
        for _ in range(steps):
            model.update()
        model.finish()
        return False, None, len([e for e in log if e[0] == "output"])
    except (Exception, SystemExit) as exc:
        return True, type(exc).__name__, len([e for e in log if e[0] == "output"])


def run(W, p):
    fault = p["fault"]
    tmp = W.scratch()
    good_frames = [-1, 1, 3]
    good_rel = [0, 1]
    # control
    cfg, log = _attempt_args = _world(W, p, good_frames, good_rel, tmp)
    refused, exc, nrec = _attempt(W, cfg, log)
    W.prove(not refused and nrec >= 1, "control-accepted", dict(exception=exc, records=nrec, fault=fault))
    tmp2 = W.fresh_scratch()
    if fault == "coverage-start":
        # first frame any number of seconds (1 .. 2 steps) after the start; the duration need not be a whole number of steps
        f0 = W.int("first_frame_sec", 1, 2 * DT)
        extra = W.int("stop_extra_sec", 0, DT - 1)
        cfg, log = _world(W, p, None, good_rel, tmp2, frame_secs=[f0, 3 * DT, 5 * DT], stop_extra=extra)
        clause = "forcing-coverage"
    elif fault == "coverage-stop":
        # last frame any number of seconds before the last simulated time (step 3)
        flast = W.int("last_frame_sec", 0, 3 * DT - 1)
        extra = W.int("stop_extra_sec", 0, DT - 1)
        cfg, log = _world(W, p, None, good_rel, tmp2, frame_secs=[-3 * DT, -2 * DT, flast], stop_extra=extra)
        clause = "forcing-coverage"
    elif fault == "order":
        # three frames, a symbolic adjacent pair is out of order or equal
        a, b, c = (W.int(f"frame{i}", -4, 8) for i in range(3))
        W.assume(W.any([W.le(b, a), W.le(c, b)]), "at least one adjacent pair not strictly increasing")
        W.assume(W.all([W.any([W.le(x, 0) for x in (a, b, c)]), W.any([W.le(3, x) for x in (a, b, c)])]), "the frames still cover the window (only the order is wrong)")
        cfg, log = _world(W, p, [a, b, c], good_rel, tmp2)
        clause = "forcing-order"
        # two frames with different times inside one model step (frame spacing below dt): the step -> frame table cannot hold
        # both, the time interpolation would divide by a step difference of zero
        (tmp2 / "dense").mkdir()
        sub = W.int("second_frame_offset_sec", 1, DT - 1)
        cfgd, logd = _world(W, p, None, good_rel, tmp2 / "dense", frame_secs=[-DT, DT, DT + sub, 4 * DT])
        refusedd, excd, nrecd = _attempt(W, cfgd, logd)
        W.prove(refusedd, clause, dict(case="two frames inside one model step", exception=excd))
        W.prove(nrecd == 0, "no-output", dict(case="two frames inside one model step", records=nrecd))
    elif fault == "release-window":
        r0 = W.int("rel0", -6, 10)
        r1 = W.int("rel1", -6, 10)
        W.assume(W.le(r0, r1), "release table sorted")
        if p["cont"]:
            # continuous: ticks start at the first file time; no tick inside [0, 3) only if the first row is at or after the stop
            W.assume(W.le(3, r0), "no release tick inside the window")
        else:
            W.assume(W.all([W.any([W.lt(r, 0), W.le(3, r)]) for r in (r0, r1)]), "no row inside the window")
        cfg, log = _world(W, p, good_frames, [r0, r1], tmp2)
        clause = "release-window"
        # the same when the only rows inside the window release nothing (mult = 0)
        (tmp2 / "m0").mkdir()
        cfg0, log0 = _world(W, p, good_frames, [1], tmp2 / "m0", relcols=("release_time", "X", "Y", "Z", "mult"), mults=[0])
        refused0, exc0, nrec0 = _attempt(W, cfg0, log0)
        W.prove(refused0, clause, dict(case="only a mult = 0 row inside the window", exception=exc0))
        W.prove(nrec0 == 0, "no-output", dict(case="only a mult = 0 row inside the window", records=nrec0))
        # the only row lies in the unfinished last step: the run has 3 steps (Nsteps is the floor of duration / dt), the row
        # at step 3 is before the stop time but at no simulated step -- nothing is released, the run must be refused
        (tmp2 / "tail").mkdir()
        extra = W.int("tail_extra_sec", 1, DT - 1)
        cfgt, logt = _world(W, p, [-1, 1, 5], [3], tmp2 / "tail", stop_extra=extra)
        refusedt, exct, nrect = _attempt(W, cfgt, logt)
        W.prove(refusedt, clause, dict(case="the only row lies after the last simulated step (duration no multiple of dt)", exception=exct))
        W.prove(nrect == 0, "no-output", dict(case="only row after the last simulated step", records=nrect))
    elif fault == "time":
        clause = "time-setup"
        res = []
        for which in ("start", "stop", "dt", "direction"):
            (tmp2 / which).mkdir()
            cfg, log = _world(W, p, good_frames, good_rel, tmp2 / which)
            if which == "direction":
                cfg["time"]["stop"] = W.dt(T0 - 3 * DT)
            else:
                cfg["time"][which] = "" if which != "dt" else 0
            refused, exc, nrec = _attempt(W, cfg, log)
            W.prove(refused, clause, dict(case=which, exception=exc))
            W.prove(nrec == 0, "no-output", dict(case=which))
        return ("time",)
    elif fault == "release-position":
        clause = "release-position"
        for case in ("no-position", "missing-file", "empty-name", "row-without-position"):
            (tmp2 / case).mkdir()
            cfg, log = _world(W, p, good_frames, good_rel, tmp2 / case, relcols=("release_time", "Z") if case == "no-position" else ("release_time", "X", "Y", "Z"))
            if case == "row-without-position":
                # the table has X and Y columns but one row leaves them empty (read as NaN)
                sgn_ = -1 if p["rev"] else 1
                W.table(tmp2 / case / "r.rls", ["release_time", "X", "Y", "Z"], [[W.dt(T0), 3, 3, 5], [W.dt(T0 + sgn_ * DT), float("nan"), float("nan"), 5]])
            if case == "missing-file":
                cfg["release"]["release_file"] = str(tmp2 / "nosuch.rls")
            if case == "empty-name":
                cfg["release"]["release_file"] = ""
            refused, exc, nrec = _attempt(W, cfg, log)
            W.prove(refused, clause, dict(case=case, exception=exc))
            W.prove(nrec == 0, "no-output", dict(case=case))
        return ("release-position",)
    elif fault == "files":
        clause = "files-and-sections"
        for case in ("grid", "forcing", "warm", "config", "module"):
            (tmp2 / case).mkdir()
            cfg, log = _world(W, p, good_frames, good_rel, tmp2 / case)
            if case == "module":
                # a plug-in module file that does not exist: refused, and with a non-zero exit status
                cfg["ibm"] = dict(module=str(tmp2 / "no_such_ibm.py"))
                try:
                    build_model(W, cfg)
                    status = "accepted"
                except SystemExit as e:
                    status = e.code
                except Exception as e:  # noqa
                    status = type(e).__name__
                W.prove(status not in ("accepted", None, 0), clause, dict(case=case, exit_status=status, note="the start-up stops but reports success"))
                continue
            if case == "grid":
                cfg["grid"]["filename"] = str(tmp2 / "nogrid.nc")
            elif case == "forcing":
                cfg["forcing"]["filename"] = str(tmp2 / "nothing_*.nc")
            elif case == "warm":
                cfg["warm_start"] = dict(filename=str(tmp2 / "nowarm.nc"))
            try:
                if case == "config":
                    W.load("ladim.configure").configure(tmp2 / "noconfig.yaml")
                    refused, exc, nrec = False, None, 0
                else:
                    if case == "warm":
                        W.load("ladim.configure").configure_v2(cfg)
                    refused, exc, nrec = _attempt(W, cfg, log)
            except (Exception, SystemExit) as e:
                refused, exc, nrec = True, type(e).__name__, 0
            W.prove(refused, clause, dict(case=case, exception=exc))
            W.prove(nrec == 0, "no-output", dict(case=case))
        return ("files",)
    elif fault == "sections":
        clause = "files-and-sections"
        conf = W.load("ladim.configure")
        base = ["version: 2", "time: {start: 2000-01-04, stop: 2000-01-05, dt: 600}", f"forcing: {{module: ladim.ROMS, filename: {tmp2 / 'f_000.nc'}}}",
                "tracker: {advection: EF}", "release: {release_file: r.rls}", "output: {filename: o.nc, output_period: 3600, instance_variables: {}}"]
        for missing in ("time", "forcing", "tracker", "release", "output"):
            (tmp2 / "c.yaml").write_text("\n".join(ln for ln in base if not ln.startswith(missing + ":")) + "\n")
            try:
                c = conf.configure(tmp2 / "c.yaml")
                build_model(W, c)
                refused, exc = False, None
            except (Exception, SystemExit) as e:
                refused, exc = True, type(e).__name__
            W.prove(refused, clause, dict(missing_section=missing, exception=exc))
        (tmp2 / "bad.yaml").write_text("time: [unclosed\n")
        try:
            conf.configure(tmp2 / "bad.yaml")
            refused = False
        except (Exception, SystemExit):
            refused = True
        W.prove(refused, clause, dict(case="not valid YAML"))
        return ("sections",)
    elif fault == "subgrid":
        clause = "subgrid"
        sg = [W.int(f"sg{i}", -9, 9) for i in range(4)]
        # legal means, after adding the grid size to negative entries: 1 <= i0 < i1 <= L-1 and 1 <= j0 < j1 <= M-1
        # a non-square grid (negative limits count from the upper end of their own axis)
        Ls, Ms = 12, 8  # large enough that a wrongly resolved subgrid can still hold the release point (3, 3)
        norm = [W.ite(W.lt(v, 0), v + (Ls if i < 2 else Ms), v) for i, v in enumerate(sg)]
        legal = W.all([W.le(1, norm[0]), W.lt(norm[0], norm[1]), W.le(norm[1], Ls - 1), W.le(1, norm[2]), W.lt(norm[2], norm[3]), W.le(norm[3], Ms - 1)])
        W.assume(W.not_(legal), "the subgrid is illegal")
        cfg, log = _world(W, p, good_frames, good_rel, tmp2, subgrid=sg, dims=(Ls, Ms))
    refused, exc, nrec = _attempt(W, cfg, log)
    W.prove(refused, clause, dict(fault=fault, exception=exc, params={k: v for k, v in (W.model_so_far() if hasattr(W, "model_so_far") else {}).items()}))
    W.prove(nrec == 0, "no-output", dict(fault=fault, records=nrec))
    return (fault, exc)


def signature(v, scen):
    info = v.get("info") or {}
    return f"{v['clause']}:{scen['params']['fault']}:{info.get('case', '')}"
