"""C05 particle identity — real ladim.state.State, one-operation inductive step from an arbitrary
valid pre-state + bounded operation sequences from the empty state (ghost model oracle)."""

PROPERTY = "C05"
CLAUSES = {
    "inv-lengths": "all instance arrays equally long; particle arrays have length npid",
    "inv-pid-order": "pid strictly increasing, pid[k] >= k, pid < npid",
    "append-new-pids": "new particles get npid .. npid+m-1 and npid advances by m",
    "append-keeps-old": "append leaves every existing value in place",
    "append-values": "appended values are the given ones / the defaults",
    "compactify-survivors": "compactify keeps exactly the living particles, in order, with pid and instance values",
    "compactify-particle-vars": "compactify leaves particle variables (indexed by pid) and npid alone",
    "setitem-only-target": "item assignment replaces that variable and nothing else, and stores a copy (later changes of the caller's array do not reach the state)",
    "error-leaves-state": "a rejected append raises ValueError and leaves the state unchanged",
    "record-pids": "every output record (sparse: after the writer's own compactify; dense: never compactified) holds exactly the living particles, identifiers strictly increasing with pid[k] >= k, each with its own instance values; particle variables are indexed by identifier",
    "restart-pids": "identifiers continue across a warm start, also from a file without the num_particles attribute: every record after the restart carries the identifiers (and values) of the uninterrupted run, none is handed out twice",
    "seq-ghost": "after every operation of a sequence the state equals the ghost model",
}
BOUNDS = {
    "quick": "(output records: 3 rounds of release 0..2 / arbitrary deaths / variable update seen through real Output.write, sparse and dense) pre-state n<=3 particles, npid<=n+2, append m<=2 (scalar/array/default forms), arbitrary kill masks; sequences of 3 ops from empty",
    "thorough": "pre-state n<=4, npid<=n+2, append m<=3; sequences of 4 ops from empty",
}
ASSUMES = ["pre-state of the inductive step satisfies the representation invariant (pid strictly increasing, 0<=pid<npid, equal lengths)",
           "item assignment uses an array of unchanged length (documented precondition)"]
OUTSIDE = "array sizes beyond the bound; NaN defaults for variables without a value are not compared"


def scenarios(tier):
    nmax, mmax, depth = (3, 2, 3) if tier == "quick" else (4, 3, 4)
    out = []
    for n in range(0, nmax + 1):
        for op in ("append_scalar", "append_array", "append_default", "kill_compactify", "setitem", "bad_name", "bad_shape", "bad_ndim") + (("append_missing_time",) if n <= 1 else ()):
            out.append(dict(name=f"step-{op}-n{n}", fn="step", params=dict(n=n, op=op, mmax=mmax), cost=n + 1))
    out.append(dict(name=f"seq-d{depth}", fn="seq", params=dict(depth=depth), cost=50))
    # identifiers across a restart (the run pair of C08, judged under this property)
    out.append(dict(name="restart-legacy", fn="restart", params=dict(N=6, P=1, R=2, adv="EF", legacy=True), cost=30))
    for layout in ("sparse", "dense"):
        out.append(dict(name=f"records-{layout}-d3", fn="records", params=dict(depth=3, layout=layout), cost=40))
    return out


def _mkstate(W, n, tag=""):
    st = W.load("ladim.state")
    S = st.State(instance_variables=dict(age=float), particle_variables=dict(w=float), default_values=dict(age=0, w=1))
    npid = W.idx(W.int(tag + "npid", n, n + 2))
    pid = [W.int(f"{tag}pid{k}", 0, npid - 1) for k in range(n)]
    for k in range(n - 1):
        W.assume(pid[k] < pid[k + 1], "pre-state invariant")
    vals = {v: [W.real(f"{tag}{v}{k}") for k in range(n)] for v in ("X", "Y", "Z", "age")}
    alive = [W.bool(f"{tag}alive{k}") for k in range(n)]
    active = [W.bool(f"{tag}active{k}") for k in range(n)]
    wv = [W.real(f"{tag}w{k}") for k in range(npid)]
    S.variables["pid"] = W.arr(pid, "i")
    for v in vals:
        S.variables[v] = W.arr(vals[v], "f")
    S.variables["alive"] = W.arr(alive, "b")
    S.variables["active"] = W.arr(active, "b")
    S.variables["w"] = W.arr(wv, "f")
    S.npid = npid
    ghost = dict(npid=npid, rows=[dict(pid=pid[k], X=vals["X"][k], Y=vals["Y"][k], Z=vals["Z"][k], age=vals["age"][k], alive=alive[k], active=active[k]) for k in range(n)], w=list(wv))
    return S, ghost


IV = ("pid", "X", "Y", "Z", "age", "alive", "active")


def _check_inv(W, S, clause_suffix=""):
    n = len(S.variables["pid"])
    W.prove(W.all([len(S.variables[v]) == n for v in IV]) and len(S.variables["w"]) == S.npid, "inv-lengths")
    pid = W.tolist(S.variables["pid"])
    conds = [W.le(k, pid[k]) for k in range(n)] + [W.lt(pid[k], pid[k + 1]) for k in range(n - 1)] + [W.lt(p, S.npid) for p in pid]
    W.prove(W.all(conds), "inv-pid-order")


def _same_rows(W, S, rows, clause):
    n = len(S.variables["pid"])
    if n != len(rows):
        W.prove(False, clause, dict(len_state=n, len_expected=len(rows)))
        return
    conds = []
    for v in IV:
        got = W.tolist(S.variables[v])
        for k in range(n):
            conds.append(W.eq(got[k], rows[k][v]))
    W.prove(W.all(conds), clause)


def _same_w(W, S, w, clause):
    got = W.tolist(S.variables["w"])
    if len(got) != len(w):
        W.prove(False, clause, dict(len_state=len(got), len_expected=len(w)))
        return
    W.prove(W.all([W.eq(a, b) for a, b in zip(got, w)]), clause)


def step(W, p):
    n, op = p["n"], p["op"]
    if op == "append_missing_time":
        # a time-typed instance variable without a default and without a value: the new particles get not-a-time,
        # and whatever happens the state is not left half extended
        st = W.load("ladim.state")
        S = st.State(instance_variables=dict(hatch="time"))
        for k in range(n):
            S.append(X=W.real(f"px{k}"), Y=1, Z=1, hatch=W.dt(86400 * (k + 1)))
        try:
            S.append(X=W.arr([W.real("nx0"), W.real("nx1")], "f"), Y=2, Z=3)
            raised = None
        except Exception as exc:  # noqa
            raised = type(exc).__name__
        lens = {v: len(S.variables[v]) for v in ("pid", "X", "Y", "Z", "alive", "active", "hatch")}
        W.prove(raised is None and set(lens.values()) == {n + 2} and S.npid == n + 2, "inv-lengths", dict(exception=raised, lengths=lens, npid=S.npid, note="append without a value for a time-typed variable"))
        return (op, n)
    S, g = _mkstate(W, n)
    npid = g["npid"]
    if op.startswith("append"):
        m = W.idx(W.int("m", 1, p["mmax"]))
        xs = [W.real(f"nx{i}") for i in range(m)]
        y = W.real("ny")
        z = W.real("nz")
        if op == "append_scalar":
            if m != 1:
                return ("skip",)
            S.append(X=xs[0], Y=y, Z=z, age=W.real("nage"), w=W.real("nw"))
            new = [dict(X=xs[0], Y=y, Z=z, age=W_last(W, "nage"), w=W_last(W, "nw"))]
        elif op == "append_array":
            ages = [W.real(f"nage{i}") for i in range(m)]
            wn = [W.real(f"nw{i}") for i in range(m)]
            S.append(X=W.arr(xs, "f"), Y=y, Z=W.arr([z] * m, "f"), age=W.arr(ages, "f"), w=W.arr(wn, "f"))
            new = [dict(X=xs[i], Y=y, Z=z, age=ages[i], w=wn[i]) for i in range(m)]
        else:  # defaults for age (0) and w (1); alive/active default True
            S.append(X=W.arr(xs, "f"), Y=y, Z=z)
            new = [dict(X=xs[i], Y=y, Z=z, age=0, w=1) for i in range(m)]
        _check_inv(W, S)
        W.prove(S.npid == npid + m and W.all([W.eq(a, npid + i) for i, a in enumerate(W.tolist(S.variables["pid"])[n:])]) and len(S.variables["pid"]) == n + m, "append-new-pids")
        # old part untouched
        ok = []
        for v in IV:
            got = W.tolist(S.variables[v])[:n]
            ok += [W.eq(got[k], g["rows"][k][v]) for k in range(n)]
        ok += [W.eq(a, b) for a, b in zip(W.tolist(S.variables["w"])[:npid], g["w"])]
        W.prove(W.all(ok), "append-keeps-old")
        okv = []
        for v in ("X", "Y", "Z", "age"):
            got = W.tolist(S.variables[v])[n:]
            okv += [W.eq(got[i], new[i][v]) for i in range(m)]
        okv += [W.eq(a, True) for a in W.tolist(S.variables["alive"])[n:]] + [W.eq(a, True) for a in W.tolist(S.variables["active"])[n:]]
        okv += [W.eq(a, new[i]["w"]) for i, a in enumerate(W.tolist(S.variables["w"])[npid:])]
        W.prove(W.all(okv) and len(W.tolist(S.variables["w"])) == npid + m, "append-values")
        return (op, n, m, npid)
    if op == "kill_compactify":
        kill = [W.bool(f"kill{k}") for k in range(n)]
        # marking dead as the tracker / an IBM does: boolean-mask assignment
        if n:
            S.alive[W.arr(kill, "b")] = False
        alive_now = [W.truth(W.all([g["rows"][k]["alive"], W.not_(kill[k])])) for k in range(n)]
        S.compactify()
        _check_inv(W, S)
        rows = [dict(g["rows"][k], alive=True) for k in range(n) if alive_now[k]]
        _same_rows(W, S, rows, "compactify-survivors")
        _same_w(W, S, g["w"], "compactify-particle-vars")
        W.prove(S.npid == npid, "compactify-particle-vars")
        return (op, n, tuple(alive_now))
    if op == "setitem":
        newx = [W.real(f"sx{k}") for k in range(n)]
        src = W.arr(newx, "f")
        S["X"] = src
        if n:
            src[0] = W.real("later")  # the caller's array changes afterwards: the state must hold its own copy
        _check_inv(W, S)
        rows = [dict(g["rows"][k], X=newx[k]) for k in range(n)]
        _same_rows(W, S, rows, "setitem-only-target")
        _same_w(W, S, g["w"], "setitem-only-target")
        return (op, n)
    # error paths
    try:
        if op == "bad_name":
            S.append(X=W.real("bx"), Y=1, Z=1, nosuch=3)
        elif op == "bad_ndim":
            # arguments that broadcast to a 2-D shape are rejected ("Arguments must be 1D or scalar")
            S.append(X=W.arr_nd([[W.real("bx0"), W.real("bx1")], [W.real("bx2"), W.real("bx3")]], "f"), Y=1, Z=0)
        else:
            S.append(X=W.arr([W.real("bx0"), W.real("bx1")], "f"), Y=W.arr([1, 2, 3], "f"), Z=1)
        raised = False
    except ValueError:
        raised = True
    W.prove(raised, "error-leaves-state")
    _same_rows(W, S, g["rows"], "error-leaves-state")
    _same_w(W, S, g["w"], "error-leaves-state")
    W.prove(S.npid == npid, "error-leaves-state")
    return (op, n)


def restart(W, p):
    """uninterrupted run vs. warm start from each completed file (harness.c08.run), its obligations counted under restart-pids"""
    from harness import c08

    orig = W.prove

    def prove(claim, clause, info=None, **kw):
        return orig(claim, clause if clause == "no-crash" else "restart-pids", info, **kw)

    W.prove = prove
    try:
        return c08.run(W, p)
    finally:
        del W.prove


def records(W, p):
    """the same operation sequences seen through the output file: real State + TimeKeeper + Output.write"""
    from harness.common import T0, ovar

    st, tk, out = W.load("ladim.state"), W.load("ladim.timekeeper"), W.load("ladim.out_netcdf")
    depth, layout = p["depth"], p["layout"]
    timer = tk.TimeKeeper(start=W.dt(T0), stop=W.dt(T0 + depth * 600), dt=600)
    S = st.State(instance_variables=dict(age=float), particle_variables=dict(w=float), default_values=dict(age=0))
    tmp = W.scratch()

    class Grid:
        pass

    O = out.Output(dict(time=timer, state=S, grid=Grid()), filename=str(tmp / "o.nc"), output_period=600, layout=layout,
                   instance_variables=dict(pid=ovar("i4"), X=ovar("f8"), age=ovar("f8")), particle_variables=dict(w=ovar("f8")))
    rows, wtab, npid = {}, [], 0  # ghost: pid -> row of every particle ever released (whether the state still holds the dead is its own business)
    expect = []
    trace = []
    for t in range(depth):
        timer.update()
        # one release (0..2 particles), then deaths among those present, then an update of an instance variable
        m = W.idx(W.int(f"m{t}", 0, 2))
        xs = [W.real(f"x{t}_{i}") for i in range(m)]
        ws = [W.real(f"w{t}_{i}") for i in range(m)]
        S.append(X=W.arr(xs, "f"), Y=W.frac(1), Z=W.frac(2), w=W.arr(ws, "f"))
        for i in range(m):
            rows[npid + i] = dict(pid=npid + i, X=xs[i], age=0, alive=True)
        wtab += ws
        npid += m
        present = [int(q) for q in W.tolist(S.pid)]  # the kill mask addresses the particles the state holds now
        kill = [W.truth(W.bool(f"k{t}_{q}")) for q in present]
        if present:
            S.alive[W.arr(kill, "b")] = False
        for q, kq in zip(present, kill):
            rows[q] = dict(rows[q], alive=rows[q]["alive"] and not kq)
        d = W.real(f"d{t}")
        S["age"] = S.age + d
        for q in present:
            rows[q] = dict(rows[q], age=rows[q]["age"] + d)
        O.update()
        expect.append([dict(rows[q]) for q in sorted(rows) if rows[q]["alive"]])
        trace.append((m, tuple(zip(present, kill))))
    O.close()
    f = W.nc_read(tmp / "o.nc")
    info = dict(layout=layout, history=trace)
    conds = []
    if layout == "sparse":
        pc = f["vars"]["particle_count"]
        off = 0
        ok = len(pc) == depth and not any(W.is_fill(c) for c in pc)
        for t in range(depth if ok else 0):
            c = int(pc[t])
            pid = [int(q) for q in f["vars"]["pid"][off:off + c]]
            ok = ok and pid == [r["pid"] for r in expect[t]] and all(a < b for a, b in zip(pid, pid[1:])) and all(q >= k for k, q in enumerate(pid))
            if ok:
                conds += [W.eq(a, r["X"]) for a, r in zip(f["vars"]["X"][off:off + c], expect[t])]
                conds += [W.eq(a, r["age"]) for a, r in zip(f["vars"]["age"][off:off + c], expect[t])]
            off += c
        W.prove(ok, "record-pids", dict(info, note="membership/order", counts=[None if W.is_fill(c) else int(c) for c in pc]))
    else:
        ok = len(f["vars"]["X"]) == depth
        for t in range(depth if ok else 0):
            rowx, rowa = f["vars"]["X"][t], f["vars"]["age"][t]
            live = {r["pid"]: r for r in expect[t]}
            for k in range(len(rowx)):
                if k in live:
                    ok = ok and not W.is_fill(rowx[k]) and not W.is_fill(rowa[k])
                    if ok:
                        conds += [W.eq(rowx[k], live[k]["X"]), W.eq(rowa[k], live[k]["age"])]
                else:
                    ok = ok and W.is_fill(rowx[k]) and W.is_fill(rowa[k])
            ok = ok and all(k < len(rowx) for k in live)
        W.prove(ok, "record-pids", dict(info, note="column k is filled exactly while particle k lives"))
    w = f["vars"].get("w")
    okw = w is not None and len(w) == npid and not any(W.is_fill(x) for x in w)
    W.prove(okw, "record-pids", dict(info, note="particle variable length", got=None if w is None else len(w), expected=npid))
    if okw:
        conds += [W.eq(a, b) for a, b in zip(w, wtab)]
    W.prove(W.all(conds), "record-pids", dict(info, note="values follow the identifier"))
    return tuple(trace)


def W_last(W, name):
    """value of an already created variable (sym: the term; real: the model value)"""
    if W.symbolic:
        return W.core.SN(W.E.vars[name])
    return W._val(name)


def seq(W, p):
    st = W.load("ladim.state")
    S = st.State(instance_variables=dict(age=float), particle_variables=dict(w=float), default_values=dict(age=0))
    rows, wtab, npid = [], [], 0
    trace = []
    for t in range(p["depth"]):
        op = W.idx(W.int(f"op{t}", 0, 3))
        if op == 0:
            m = W.idx(W.int(f"m{t}", 0, 2))
            xs = [W.real(f"x{t}_{i}") for i in range(m)]
            ws = [W.real(f"w{t}_{i}") for i in range(m)]
            S.append(X=W.arr(xs, "f"), Y=W.frac(1), Z=W.frac(2), w=W.arr(ws, "f"))
            for i in range(m):
                rows.append(dict(pid=npid + i, X=xs[i], Y=1, Z=2, age=0, alive=True, active=True))
            wtab += ws
            npid += m
            trace.append(("append", m))
        elif op == 1:
            n = len(rows)
            kill = [W.bool(f"k{t}_{k}") for k in range(n)]
            if n:
                S.alive[W.arr(kill, "b")] = False
            for k in range(n):
                rows[k] = dict(rows[k], alive=W.all([rows[k]["alive"], W.not_(kill[k])]))
            trace.append(("kill", n))
        elif op == 2:
            S.compactify()
            rows = [dict(r, alive=True) for r in rows if W.truth(r["alive"])]
            trace.append(("compactify", len(rows)))
        else:
            n = len(rows)
            d = W.real(f"d{t}")
            S["age"] = S.age + d
            rows = [dict(r, age=r["age"] + d) for r in rows]
            trace.append(("setitem", n))
        _check_inv(W, S)
        _same_rows(W, S, rows, "seq-ghost")
        _same_w(W, S, wtab, "seq-ghost")
        W.prove(S.npid == npid, "seq-ghost")
    return tuple(trace)
