"""C01 advection order of accuracy — Butcher tableau extraction from the real Tracker.update /
EF / RK2 / RK4 / RKstep / clip / RK4avg and from analytical.get_velocity1/2/4, then the exact
order conditions on the extracted rationals."""
from fractions import Fraction

from harness.common import PLUG, T0

PROPERTY = "C01"
CLAUSES = {
    "no-crash": "one tracking step runs without exception",
    "linear-in-stage-velocities": "the displacement is (dt/dx) * sum_k b_k U_k and every stage position is X + (dt/dx) * sum_j a_kj U_j with constant rational a, b, for all stage velocities, positions, dt and dx",
    "stage-consistency": "stage k asks for the velocity at the fractional time c_k = sum_j a_kj that matches its position",
    "order-conditions": "the extracted tableau satisfies the Butcher order conditions of order 1 (EF), 2 (RK2), 4 (RK4)",
    "sharpness": "vacuity guard: the same tableau does not satisfy the conditions of the next order",
    "analytic-helpers": "analytical.get_velocity1/2/4 implement tableaus of order 1, 2 (for every s), 4",
}
BOUNDS = {
    "quick": "1-2 particles, stage velocities/positions/dx/dy/dt arbitrary reals (anisotropic metric, different per particle) with |U dt/dx| < 1 and start >= 3 cells inside a tall (39x87) or wide (87x39) domain with distinct lower limits (no clip, kill or land branch); all three schemes; get_velocity2 with symbolic s in (0, 2]",
    "thorough": "3 particles; anisotropic check via different dx per particle",
}
ASSUMES = ["interior start position and per-step displacement below one cell (the property's own precondition)",
           "convergence of order p follows from the order conditions for sufficiently smooth fields (textbook: local error O(h^(p+1)) => global O(h^p)); not machine-checked"]
OUTSIDE = "rounding; the limit statement itself"


def scenarios(tier):
    out = []
    for adv in ("EF", "RK2", "RK4"):
        for npart in ((1, 2) if tier == "quick" else (1, 2, 3)):
            out.append(dict(name=f"tracker-{adv}-p{npart}", fn="tracker", params=dict(adv=adv, npart=npart, shape=("square", "tall", "wide")[npart % 3]), cost=5))
        # an inactive particle stored before an active one (per-particle arrays must stay aligned)
        out.append(dict(name=f"tracker-{adv}-p2-inactive-first", fn="tracker", params=dict(adv=adv, npart=2, shape="square", inactive=[0]), cost=5))
        if tier == "quick":
            out.append(dict(name=f"tracker-{adv}-p1-wide", fn="tracker", params=dict(adv=adv, npart=1, shape="wide"), cost=5))
    for which in (1, 2, 4):
        out.append(dict(name=f"analytical-{which}", fn="helper", params=dict(which=which), cost=2))
    return out


ORDER = dict(EF=1, RK2=2, RK4=4)


def order_conditions(a, b, c, order):
    """list of (name, lhs, rhs) for all rooted trees up to `order` (explicit tableau)"""
    n = len(b)
    conds = [("sum b = 1", sum(b), Fraction(1))]
    if order >= 2:
        conds.append(("sum b c = 1/2", sum(b[i] * c[i] for i in range(n)), Fraction(1, 2)))
    if order >= 3:
        conds.append(("sum b c^2 = 1/3", sum(b[i] * c[i] ** 2 for i in range(n)), Fraction(1, 3)))
        conds.append(("sum b a c = 1/6", sum(b[i] * a[i][j] * c[j] for i in range(n) for j in range(n)), Fraction(1, 6)))
    if order >= 4:
        conds.append(("sum b c^3 = 1/4", sum(b[i] * c[i] ** 3 for i in range(n)), Fraction(1, 4)))
        conds.append(("sum b c a c = 1/8", sum(b[i] * c[i] * a[i][j] * c[j] for i in range(n) for j in range(n)), Fraction(1, 8)))
        conds.append(("sum b a c^2 = 1/12", sum(b[i] * a[i][j] * c[j] ** 2 for i in range(n) for j in range(n)), Fraction(1, 12)))
        conds.append(("sum b a a c = 1/24", sum(b[i] * a[i][j] * a[j][k] * c[k] for i in range(n) for j in range(n) for k in range(n)), Fraction(1, 24)))
    if order >= 5:
        conds.append(("sum b c^4 = 1/5", sum(b[i] * c[i] ** 4 for i in range(n)), Fraction(1, 5)))
    return conds


class _RecForce:
    """forcing plug: stage velocities are given values; records what the tracker asks for"""

    def __init__(self, W, npart, values, active=None):
        self.W, self.npart, self.values = W, npart, values
        self.active = list(range(npart)) if active is None else list(active)
        self.calls = []
        self.variables = {}

    def velocity(self, X, Y, Z, fractional_step=0, method="bilinear"):
        k = len(self.calls)
        # a tracker may ask for all particles or for the active ones only: answer in the order asked
        who = list(range(self.npart)) if len(X) == self.npart else self.active
        if len(X) != len(who):
            raise AssertionError(f"velocity asked for {len(X)} positions; the state has {self.npart} particles, {len(self.active)} active")
        self.calls.append((dict(zip(who, self.W.tolist(X))), dict(zip(who, self.W.tolist(Y))), fractional_step))
        u = self.values(k, "u")
        v = self.values(k, "v")
        return self.W.arr([u[n] for n in who], "f"), self.W.arr([v[n] for n in who], "f")


SHAPES = dict(square=(0, 40, 0, 40), tall=(1, 40, 3, 90), wide=(3, 90, 1, 40))  # grid.xmin, xmax, ymin, ymax


def _run_tracker(W, adv, npart, values, x, y, dx, dtsec, dy=None, shape="square", inactive=()):
    dy = dx if dy is None else dy
    bx0, bx1, by0, by1 = SHAPES[shape]
    trk, st = W.load("ladim.tracker"), W.load("ladim.state")
    tk = W.load("ladim.timekeeper")

    class Grid:
        xmin, xmax, ymin, ymax = bx0, bx1, by0, by1

        def metric(self, X, Y):
            return W.arr(list(dx), "f"), W.arr(list(dy), "f")

        def ingrid(self, X, Y):
            return (X > bx0 + W.frac(1, 2)) & (X < bx1 - W.frac(1, 2)) & (Y > by0 + W.frac(1, 2)) & (Y < by1 - W.frac(1, 2))

        def atsea(self, X, Y):
            return W.arr([True] * len(X), "b")

    class Timer:
        pass

    timer = Timer()
    timer.dt = _DtBox(W, dtsec)
    S = st.State()
    S.append(X=W.arr(list(x), "f"), Y=W.arr(list(y), "f"), Z=5)
    for n in inactive:
        S.active[n] = False
    F = _RecForce(W, npart, values, active=[n for n in range(npart) if n not in inactive])
    T = trk.Tracker(advection=adv, modules=dict(state=S, grid=Grid(), forcing=F, time=timer))
    T.update()
    return S, F


class _DtBox:
    """timer.dt stand-in: dt / np.timedelta64(1, 's') gives the (symbolic) number of seconds"""

    def __init__(self, W, sec):
        self.W, self.sec = W, sec

    def __truediv__(self, other):
        return self.sec


def _nstages(adv):
    return dict(EF=1, RK2=2, RK4=4)[adv]


def tracker(W, p):
    adv, npart = p["adv"], p["npart"]
    ns = _nstages(adv)
    # anywhere at least 3 cells inside a non-square domain (the stage clip box must come from the right grid limits)
    bx0, bx1, by0, by1 = SHAPES[p.get("shape", "square")]
    x = [W.real(f"x{n}", bx0 + 3, bx1 - 3) for n in range(npart)]
    y = [W.real(f"y{n}", by0 + 3, by1 - 3) for n in range(npart)]
    dx = [W.real(f"dx{n}", 1, 10000) for n in range(npart)]
    dy = [W.real(f"dy{n}", 1, 10000) for n in range(npart)]  # anisotropic metric: dy independent of dx
    dt = W.real("dt", 1, 100000)
    U = {(k, c, n): W.real(f"{c}{k}_{n}", -1, 1) for k in range(ns) for c in "uv" for n in range(npart)}
    for n in range(npart):
        # per-step displacement below one cell
        for k in range(ns):
            for c in "uv":
                dd = dx[n] if c == "u" else dy[n]
                W.assume(W.all([W.lt(U[(k, c, n)] * dt, dd), W.lt(-dd, U[(k, c, n)] * dt)]), "|U| dt / dx < 1")
    S, F = _run_tracker(W, adv, npart, lambda k, c: [U[(k, c, n)] for n in range(npart)], x, y, dx, dt, dy, shape=p.get("shape", "square"), inactive=p.get("inactive", ()))
    W.prove(len(F.calls) == ns, "linear-in-stage-velocities", dict(calls=len(F.calls), expected=ns))
    if len(F.calls) != ns:
        return (adv, "calls")
    # ---- extraction of a, b (unit impulses) and c (recorded fractional steps)
    a, b = _extract(W, p, ns)
    c_time = [Fraction(str(cc[2])) if not hasattr(cc[2], "numerator") else Fraction(cc[2]) for cc in F.calls]
    # ---- linearity identity for all values
    conds = []
    Xn, Yn = W.tolist(S.X), W.tolist(S.Y)
    for n in range(npart):
        if n in p.get("inactive", ()):
            # an inactive particle keeps its place; whether the tracker samples a velocity for it is its own business
            conds += [W.eq(Xn[n], x[n]), W.eq(Yn[n], y[n])]
            continue
        conds.append(W.eq(Xn[n], x[n] + dt / dx[n] * sum(_q(W, b[k]) * U[(k, "u", n)] for k in range(ns))))
        conds.append(W.eq(Yn[n], y[n] + dt / dy[n] * sum(_q(W, b[k]) * U[(k, "v", n)] for k in range(ns))))
        for k in range(ns):
            conds.append(W.eq(F.calls[k][0][n], x[n] + dt / dx[n] * sum(_q(W, a[k][j]) * U[(j, "u", n)] for j in range(ns))))
            conds.append(W.eq(F.calls[k][1][n], y[n] + dt / dy[n] * sum(_q(W, a[k][j]) * U[(j, "v", n)] for j in range(ns))))
    W.prove(W.all(conds), "linear-in-stage-velocities", dict(a=_s(a), b=_s(b)))
    c_space = [sum(a[k]) for k in range(ns)]
    W.prove(c_space == c_time, "stage-consistency", dict(c_from_positions=_s(c_space), c_from_fractional_step=_s(c_time), a=_s(a)))
    order = ORDER[adv]
    bad = [nm for nm, l, r in order_conditions(a, b, c_space, order) if l != r] + [nm + " (time)" for nm, l, r in order_conditions(a, b, c_time, order) if l != r]
    W.prove(not bad, "order-conditions", dict(failed=bad, a=_s(a), b=_s(b), c=_s(c_time), scheme=adv))
    nxt = order_conditions(a, b, c_space, order + 1)
    W.prove(any(l != r for nm, l, r in nxt), "sharpness", dict(note="tableau also satisfies the next order: the harness cannot tell orders apart"))
    return (adv, npart, _s(b))


def _q(W, f):
    return W.frac(f.numerator, f.denominator)


def _s(x):
    if isinstance(x, list):
        return [_s(y) for y in x]
    return str(x)


def _extract(W, p, ns):
    """a_kj, b_k by running the same real code on unit impulses (concrete values, both backends)"""
    adv = p["adv"]
    one = Fraction(1)
    a = [[Fraction(0)] * ns for _ in range(ns)]
    b = [Fraction(0)] * ns
    for m in range(ns):
        vals = lambda k, c, m=m: [W.frac(1, 8) if (k == m and c == "u") else 0]  # noqa: E731
        S, F = _run_tracker(W, adv, 1, vals, [W.frac(20)], [W.frac(20)], [W.frac(1)], W.frac(1))
        if len(F.calls) != ns:
            continue
        b[m] = _asfrac((W.tolist(S.X)[0] - 20) * 8)
        for k in range(ns):
            a[k][m] = _asfrac((F.calls[k][0][0] - 20) * 8)
    return a, b


def _asfrac(v):
    if hasattr(v, "const"):
        c = v.const()
        return Fraction(c)
    if isinstance(v, Fraction):
        return Fraction(v)
    return Fraction(v).limit_denominator(10000)


def helper(W, p):
    """analytical.get_velocity{1,2,4}: same extraction with a recording sample function"""
    an = W.load("ladim.analytical")
    which = p["which"]
    ns = {1: 1, 2: 2, 4: 4}[which]
    fn = getattr(an, f"get_velocity{which}")
    s_par = W.real("s", W.frac(1, 10), 2) if which == 2 else None

    class St:
        pass

    def run(vals, x0, y0, dt, s=None):
        calls = []

        def sample(xx, yy):
            k = len(calls)
            calls.append((xx, yy))
            return vals(k, "u"), vals(k, "v")

        S = St()
        S.X, S.Y = x0, y0
        if which == 1:
            r = fn(S, sample, dt)
        elif which == 2:
            r = fn(S, sample, dt, s) if s is not None else fn(S, sample, dt)
        else:
            r = fn(S, sample, dt)
        return r, calls

    x0, y0, dt = W.real("x0", -100, 100), W.real("y0", -100, 100), W.real("dt", 1, 10000)
    U = {(k, c): W.real(f"{c}{k}", -1, 1) for k in range(ns) for c in "uv"}
    (ru, rv), calls = run(lambda k, c: U[(k, c)], x0, y0, dt, s_par)
    W.prove(len(calls) == ns, "analytic-helpers", dict(calls=len(calls)))
    if len(calls) != ns:
        return (which, "calls")
    if which == 2:
        # tableau depends on s: a21 = s, b = (1 - 1/(2s), 1/(2s)); prove it symbolically for every s
        m = 1 / (2 * s_par)
        conds = [W.eq(calls[1][0], x0 + s_par * dt * U[(0, "u")]), W.eq(calls[1][1], y0 + s_par * dt * U[(0, "v")]),
                 W.eq(ru, (1 - m) * U[(0, "u")] + m * U[(1, "u")]), W.eq(rv, (1 - m) * U[(0, "v")] + m * U[(1, "v")]),
                 W.eq((1 - m) + m, 1), W.eq(m * s_par, W.frac(1, 2))]  # order 1 and order 2 conditions for every s
        W.prove(W.all(conds), "analytic-helpers", dict(scheme="RK2(s)"))
        return (which,)
    # constant tableau: extract and test
    a = [[Fraction(0)] * ns for _ in range(ns)]
    b = [Fraction(0)] * ns
    for mm in range(ns):
        (eu, ev), ecalls = run(lambda k, c, mm=mm: (W.frac(1, 8) if (k == mm and c == "u") else W.frac(0)), W.frac(0), W.frac(0), W.frac(1))
        b[mm] = _asfrac(eu * 8)
        for k in range(ns):
            a[k][mm] = _asfrac(ecalls[k][0] * 8)
    conds = [W.eq(ru, sum(_q(W, b[k]) * U[(k, "u")] for k in range(ns))), W.eq(rv, sum(_q(W, b[k]) * U[(k, "v")] for k in range(ns)))]
    for k in range(ns):
        conds.append(W.eq(calls[k][0], x0 + dt * sum(_q(W, a[k][j]) * U[(j, "u")] for j in range(ns))))
        conds.append(W.eq(calls[k][1], y0 + dt * sum(_q(W, a[k][j]) * U[(j, "v")] for j in range(ns))))
    c = [sum(a[k]) for k in range(ns)]
    bad = [nm for nm, l, r in order_conditions(a, b, c, which) if l != r]
    W.prove(W.all(conds + [not bad]), "analytic-helpers", dict(failed=bad, a=_s(a), b=_s(b)))
    return (which, _s(b))


def signature(v, scen):
    return f"{v['clause']}:{scen['params'].get('adv', scen['params'].get('which'))}"
