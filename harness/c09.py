"""C09 in water, inside the domain, dead stay dead — one real Tracker.update (EF/RK2/RK4, clip,
diffuse) from an arbitrary valid pre-state on the real ROMS Grid (ingrid/atsea/metric) with a
symbolic land mask; velocities and random draws are arbitrary reals of any magnitude."""
import math

from harness.trkcommon import BWEIGHTS, NSTAGES, StageForce, Timer, in_valid, roms_grid

PROPERTY = "C09"
CLAUSES = {
    "no-crash": "the step raises no exception (no index outside the mask, whatever the velocity)",
    "alive-in-water": "every particle alive after the step is inside the valid region in a sea cell",
    "dead-stay-dead": "alive after the step implies alive before it",
    "out-of-grid-dies": "a particle whose move would leave the valid region is dead (and inactive) afterwards and is not moved",
    "land-cancels": "a move onto a land cell is cancelled: the position is unchanged",
    "inactive-stays": "inactive particles are not moved horizontally, stay inactive and are not killed by the move they do not make",
    "no-later-record": "through the real main loop and output: a particle appears in the records up to the step whose move would leave the valid region and in no later record (also when nobody is left alive), sparse and dense",
    "moves-as-prescribed": "any other particle ends at X + U_eff dt/dx, Y + V_eff dt/dy (advection + diffusion)",
}
BOUNDS = {
    "quick": "(records: 6-step runs on the plug-in basin, 2 particles from symbolic positions/release step leaving through the open boundary, record every step, sparse and dense, EF) global 6x6 mask fully symbolic (islands, channels), subgrids {full, [1,5,2,5]}, 2 particles (alive/active flags symbolic) anywhere in sea cells of the valid region, stage velocities and normal draws any real (any magnitude), dt = 600 s, D in {0, 0.75}, EF/RK2/RK4",
    "thorough": "7x6 mask, 3 particles, subgrids {full, [2,6,1,5], [1,5,1,4]}",
}
ASSUMES = ["pre-state: every particle (alive or not) sits in a sea cell of the valid region (what the previous step established)",
           "effective velocity of a scheme = the tableau weights proven in C01"]
OUTSIDE = "NaN/inf velocities"


def scenarios(tier):
    q = tier == "quick"
    L, M = (6, 6) if q else (7, 6)
    subs = [None, [1, 5, 2, 5]] if q else [None, [2, 6, 1, 5], [1, 5, 1, 4]]
    out = []
    for adv in ("EF", "RK2", "RK4"):
        for sub in subs:
            for diff in ((False, True) if adv == "EF" else (False,)):
                nm = f"{adv}-sub{'full' if sub is None else '_'.join(map(str, sub))}-{'diff' if diff else 'nodiff'}"
                # one particle anywhere; two/three particles with start cells pinned (cross-talk between array elements)
                out.append(dict(name=nm + "-p1", fn="run", params=dict(adv=adv, sub=sub, diff=diff, L=L, M=M, npart=1, pinned=False), cost=30))
                if sub is None and not diff and (adv == "EF" or not q):
                    for regime in ("out", "stay", "hop"):
                        for who in (1, 0):  # which array slot holds the regime particle (index cross-talk depends on the order)
                            out.append(dict(name=nm + f"-p2-{regime}{who}", fn="run", params=dict(adv=adv, sub=sub, diff=diff, L=L, M=M, npart=2, pinned=True, regime=regime, who=who), cost=40))
    for layout in ("sparse", "dense"):
        for adv in (("EF",) if q else ("EF", "RK4")):
            out.append(dict(name=f"records-{layout}-{adv}", fn="records", params=dict(layout=layout, adv=adv, N=6), cost=20))
    return out


def records(W, p):
    """whole runs (real main loop, Model, State, Tracker, Output; plug-in basin 20x20, 3 cells per step eastwards):
    two particles start at symbolic positions, leave through the open boundary one after the other; the files are read back"""
    from harness.common import T0, base_config, ovar, run_main

    N, layout = p["N"], p["layout"]
    DT = 600
    tmp = W.scratch()
    xs = [W.real("xa", 6, 14), W.real("xb", 6, 14)]
    r1 = W.idx(W.int("release_step_b", 0, N - 2))  # the second release may come after the first particle has died
    P = W.idx(W.int("period", 1, 2))  # with a record every second step a dead particle stays in the state for a while
    W.table(tmp / "r.rls", ["release_time", "X", "Y", "Z"], [[W.dt(T0), xs[0], 10, 5], [W.dt(T0 + r1 * DT), xs[1], 8, 5]])
    cfg = base_config(W, start=T0, stop=T0 + N * DT, dt=DT, release_file=tmp / "r.rls", u=W.frac(1, 2), advection=p["adv"],
                      output=dict(filename=str(tmp / "out.nc"), output_period=P * DT, layout=layout, instance_variables=dict(pid=ovar("i4"), X=ovar("f8"))))
    cfg["forcing"]["filename"] = str(tmp / "unused.nc")
    run_main(W, cfg)
    rel = [0, r1]
    # record s holds particle n iff it is released and every position so far was inside: x + 3 (s - rel) < 19.5
    exp = []
    for s_ in range(0, N, P):
        row = {}
        for n in range(2):
            if s_ >= rel[n] and W.truth(W.lt(xs[n] + 3 * (s_ - rel[n]), W.frac(39, 2))):
                row[n] = xs[n] + 3 * (s_ - rel[n])
        exp.append(row)
    f = W.nc_read(tmp / "out.nc")
    info = dict(layout=layout, adv=p["adv"], period=P, release_step_b=r1, expected_members=[sorted(r) for r in exp])
    conds = []
    ok = True
    if layout == "sparse":
        pc = f["vars"]["particle_count"]
        NR = len(exp)
        ok = len(pc) == NR and not any(W.is_fill(c) for c in pc)
        off = 0
        got = []
        for s_ in range(NR if ok else 0):
            c = int(pc[s_])
            pid = [int(q_) for q_ in f["vars"]["pid"][off:off + c]]
            got.append(pid)
            if pid != sorted(exp[s_]):
                ok = False
            else:
                conds += [W.eq(a, exp[s_][q_]) for a, q_ in zip(f["vars"]["X"][off:off + c], pid)]
            off += c
        info["got_members"] = got
    else:
        X = f["vars"]["X"]
        ok = len(X) == len(exp)
        for s_ in range(len(exp) if ok else 0):
            for n in range(len(X[s_])):
                if n in exp[s_]:
                    ok = ok and not W.is_fill(X[s_][n])
                    if ok:
                        conds.append(W.eq(X[s_][n], exp[s_][n]))
                else:
                    ok = ok and W.is_fill(X[s_][n])
            ok = ok and all(n < len(X[s_]) for n in exp[s_])
    W.prove(ok, "no-later-record", info)
    W.prove(W.all(conds), "no-later-record", dict(info, note="positions of the members"))
    return tuple(tuple(sorted(r)) for r in exp)


def _rint(W, x):
    if W.symbolic:
        return W.idx(W.core.SN.of(int(W.core.SN.real(x).rint().const())))
    return int(round(x))


def run(W, p):
    adv, npart, L, M = p["adv"], p["npart"], p["L"], p["M"]
    trk, st = W.load("ladim.tracker"), W.load("ladim.state")
    grid, mask, _ = roms_grid(W, L, M, sub=p["sub"], sym_mask=True)
    i0, j0 = grid.i0, grid.j0
    ns = NSTAGES[adv]
    dt = 600  # concrete: stage velocities are arbitrary reals, so displacements are arbitrary anyway (keeps every query linear)
    x = [W.real(f"x{n}") for n in range(npart)]
    y = [W.real(f"y{n}") for n in range(npart)]
    alive0 = [W.bool(f"alive{n}") for n in range(npart)]
    active0 = [W.bool(f"active{n}") for n in range(npart)]
    cells = []
    for n in range(npart):
        W.assume(in_valid(W, grid, x[n], y[n]), "pre-state in the valid region")
        if p["pinned"]:
            cx, cy = grid.i0 + 1 + (n % 2), grid.j0 + 1 + (n // 2)
            W.assume(W.all([W.lt(cx - W.frac(2, 5), x[n]), W.lt(x[n], cx + W.frac(2, 5)), W.lt(cy - W.frac(2, 5), y[n]), W.lt(y[n], cy + W.frac(2, 5))]), "multi-particle scenarios: start cells pinned")
        ci, cj = _rint(W, x[n]), _rint(W, y[n])
        W.assume(W.eq(mask[cj][ci], 1), "pre-state in a sea cell")
        cells.append((ci, cj))
    U = {(k, c, n): W.real(f"{c}{k}_{n}") for k in range(ns) for c in "uv" for n in range(npart)}
    if p["pinned"]:
        # the second particle's velocity is confined to one regime (array cross-talk is the point here)
        r_ = p.get("who", 1)
        for k in range(ns):
            if p["regime"] == "out":
                W.assume(W.all([W.lt(100 * 800, U[(k, "u", r_)] * dt), W.eq(U[(k, "v", r_)], 0)]), "second particle: leaves the grid")
            elif p["regime"] == "stay":
                W.assume(W.all([W.eq(U[(k, "u", r_)], 0), W.eq(U[(k, "v", r_)], 0)]), "regime particle: does not move")
            else:
                W.assume(W.all([W.eq(U[(k, "u", r_)] * dt, 800), W.eq(U[(k, "v", r_)], 0)]), "second particle: hops exactly one cell east")
    D = W.frac(3, 4) if p["diff"] else 0  # sqrt(2 D / dt) = 1/20 exactly; the draws are arbitrary reals (C11 treats D, dt symbolically)
    S = st.State()
    S.append(X=W.arr(x, "f"), Y=W.arr(y, "f"), Z=5)
    S["alive"] = W.arr(alive0, "b")
    S["active"] = W.arr(active0, "b")
    F = StageForce(W, lambda k, c: [U[(k, c, n)] for n in range(npart)])
    T = trk.Tracker(advection=adv, diffusion=D, modules=dict(state=S, grid=grid, forcing=F, time=Timer(dt)))
    W.patch_rng(T)
    # the diffusive velocity is whatever Tracker.diffuse hands out (its size and its draws are C11's subject): the oracle must not
    # depend on how the generator is called (two calls of size n, one of shape (2, n), ...)
    rec = {}
    if p["diff"] and callable(getattr(T, "diffuse", None)):
        def diffuse(*a, _orig=T.diffuse, **k):
            rec["uv"] = _orig(*a, **k)
            return rec["uv"]

        T.diffuse = diffuse
    T.update()
    X1, Y1, A1, Act1 = W.tolist(S.X), W.tolist(S.Y), W.tolist(S.alive), W.tolist(S.active)
    if "uv" in rec:
        du, dv = W.tolist(rec["uv"][0]), W.tolist(rec["uv"][1])
    dx, dy = 800, 1600  # the grid file has pm = 1/800, pn = 1/1600
    bw = [W.frac(*b) if isinstance(b, tuple) else b for b in BWEIGHTS[adv]]
    skel = []
    for n in range(npart):
        ue = sum(bw[k] * U[(k, "u", n)] for k in range(ns))
        ve = sum(bw[k] * U[(k, "v", n)] for k in range(ns))
        if p["diff"] and "uv" in rec:
            ue, ve = ue + du[n], ve + dv[n]
        elif p["diff"]:  # no diffuse method any more: two generator calls, U first
            sd = _sqrt(W, 2 * D / dt)
            ue = ue + sd * W.xi(0, n)
            ve = ve + sd * W.xi(1, n)
        xc, yc = x[n] + ue * dt / dx, y[n] + ve * dt / dy
        out = not W.truth(in_valid(W, grid, xc, yc))
        same = W.all([W.eq(X1[n], x[n]), W.eq(Y1[n], y[n])])
        W.prove(W.implies(A1[n], alive0[n]), "dead-stay-dead", dict(particle=n))
        # alive => in valid region and at sea (at the position after the step)
        ca = (_rint(W, X1[n]), _rint(W, Y1[n])) if W.truth(in_valid(W, grid, X1[n], Y1[n])) else None
        W.prove(W.implies(A1[n], W.eq(mask[ca[1]][ca[0]], 1) if ca is not None else False), "alive-in-water", dict(particle=n, cell=ca))
        if not W.truth(active0[n]):
            # an inactive particle makes no move: it stays where it is and is not killed by a current it does not feel
            W.prove(W.all([same, W.eq(A1[n], alive0[n]), W.not_(Act1[n])]), "inactive-stays", dict(particle=n, hypothetical_move_leaves_grid=out))
            skel.append("inactive")
            continue
        if out:
            W.prove(W.all([W.not_(A1[n]), W.not_(Act1[n]), same]), "out-of-grid-dies", dict(particle=n))
            skel.append("out")
            continue
        cc = (_rint(W, xc), _rint(W, yc))
        if W.truth(W.eq(mask[cc[1]][cc[0]], 1)):
            W.prove(W.all([W.eq(X1[n], xc), W.eq(Y1[n], yc), W.eq(A1[n], alive0[n])]), "moves-as-prescribed", dict(particle=n, scheme=adv))
            skel.append("move")
        else:
            W.prove(W.all([same, W.eq(A1[n], alive0[n])]), "land-cancels", dict(particle=n))
            skel.append("land")
    return (tuple(cells), tuple(skel))


def _sqrt(W, v):
    if W.symbolic:
        return W.core.sym_sqrt(v)
    return math.sqrt(v)


def signature(v, scen):
    if v["kind"] == "crash":
        return f"crash:{v['info'].get('exception')}:{scen['params']['adv']}"
    return f"{v['clause']}:{scen['params']['adv']}"
