"""Plug-in forcing for the harnesses: spatially constant velocity (u, v) [+ w, temp] given in the config."""
import numpy as np


class Forcing:
    def __init__(self, modules, u=0, v=0, w=0, temp=None, log=None, **kw):
        self.modules = modules
        self.u, self.v, self.w, self.temp = u, v, w, temp
        self.variables = {}
        self.closed = 0
        self.updates = []
        self.log = log

    def update(self):
        state = self.modules["state"]
        n = len(state.X)
        self.updates.append((self.modules["time"].step, n))
        if self.log is not None:
            self.log.append(("forcing", self.modules["time"].step, list(state.pid), list(state.X), list(state.alive)))
        self.variables["u"] = np.zeros(n) + self.u
        self.variables["v"] = np.zeros(n) + self.v
        self.variables["w"] = np.zeros(n) + self.w
        if self.temp is not None:
            self.variables["temp"] = np.zeros(n) + self.temp
            state["temp"] = self.variables["temp"]

    def velocity(self, X, Y, Z, fractional_step=0, method="bilinear"):
        n = len(X)
        return np.zeros(n) + self.u, np.zeros(n) + self.v

    def close(self):
        self.closed += 1
        if self.log is not None:
            self.log.append(("close", "forcing"))
