"""Plug-in grid used by the verification harnesses (loaded by path through Model.load_module):
a rectangular basin 0..imax x 0..jmax with constant metric and depth, optional land cells."""
import numpy as np


class Grid:
    def __init__(self, modules=None, imax=20, jmax=20, dx=100, depth=50, land=(), log=None, **kw):
        self.xmin, self.xmax, self.ymin, self.ymax = 0.0, float(imax), 0.0, float(jmax)
        self.imax, self.jmax = imax, jmax
        self.dx = dx
        self.h = depth
        self.land = set(tuple(c) for c in land)
        self.closed = 0
        self.log = log

    def metric(self, X, Y):
        A = np.zeros(len(X)) + self.dx
        return A, A

    def depth(self, X, Y):
        return np.zeros(len(X)) + self.h

    def ingrid(self, X, Y):
        return (self.xmin + 0.5 < X) & (X < self.xmax - 0.5) & (self.ymin + 0.5 < Y) & (Y < self.ymax - 0.5)

    def atsea(self, X, Y):
        sea = np.ones(len(X), dtype=bool)
        if self.land:
            I = X.round().astype(int)
            J = Y.round().astype(int)
            for n in range(len(X)):
                if (int(I[n]), int(J[n])) in self.land:
                    sea[n] = False
        return sea

    def xy2ll(self, X, Y):
        return 4 + 2 * X, 60 + Y / 4

    def ll2xy(self, lon, lat):
        return (lon - 4) / 2, (lat - 60) * 4

    def close(self):
        self.closed += 1
        if self.log is not None:
            self.log.append(("close", "grid"))
