"""Plug-in module holding both a Grid and a Forcing class (one file given for both sections, as an old-style gridforce module):
the classes of pgrid.py and pforce.py."""
import numpy as np


class Grid:
    def __init__(self, modules=None, imax=20, jmax=20, dx=100, depth=50, land=(), log=None, **kw):
        self.xmin, self.xmax, self.ymin, self.ymax = 0.0, float(imax), 0.0, float(jmax)
        self.imax, self.jmax = imax, jmax
        self.dx = dx
        self.h = depth
        self.land = set(tuple(c) for c in land)
        self.closed = 0
        self.log = log

    def metric(self, X, Y):
        A = np.zeros(len(X)) + self.dx
        return A, A

    def depth(self, X, Y):
        return np.zeros(len(X)) + self.h

    def ingrid(self, X, Y):
        return (self.xmin + 0.5 < X) & (X < self.xmax - 0.5) & (self.ymin + 0.5 < Y) & (Y < self.ymax - 0.5)

    def atsea(self, X, Y):
        sea = np.ones(len(X), dtype=bool)
        if self.land:
            I = X.round().astype(int)
            J = Y.round().astype(int)
            for n in range(len(X)):
                if (int(I[n]), int(J[n])) in self.land:
                    sea[n] = False
        return sea

    def xy2ll(self, X, Y):
        return 4 + 2 * X, 60 + Y / 4

    def ll2xy(self, lon, lat):
        return (lon - 4) / 2, (lat - 60) * 4

    def close(self):
        self.closed += 1
        if self.log is not None:
            self.log.append(("close", "grid"))




class Forcing:
    def __init__(self, modules, u=0, v=0, w=0, temp=None, log=None, **kw):
        self.modules = modules
        self.u, self.v, self.w, self.temp = u, v, w, temp
        self.variables = {}
        self.closed = 0
        self.updates = []
        self.log = log

    def update(self):
        state = self.modules["state"]
        n = len(state.X)
        self.updates.append((self.modules["time"].step, n))
        if self.log is not None:
            self.log.append(("forcing", self.modules["time"].step, list(state.pid), list(state.X), list(state.alive)))
        self.variables["u"] = np.zeros(n) + self.u
        self.variables["v"] = np.zeros(n) + self.v
        self.variables["w"] = np.zeros(n) + self.w
        if self.temp is not None:
            self.variables["temp"] = np.zeros(n) + self.temp
            state["temp"] = self.variables["temp"]

    def velocity(self, X, Y, Z, fractional_step=0, method="bilinear"):
        n = len(X)
        return np.zeros(n) + self.u, np.zeros(n) + self.v

    def close(self):
        self.closed += 1
        if self.log is not None:
            self.log.append(("close", "forcing"))
