"""Recording output plug-in for the harnesses (same constructor vocabulary as ladim.out_netcdf.Output)."""
import numpy as np

from ladim.timekeeper import normalize_period


class Output:
    def __init__(self, modules, output_period=0, log=None, **kw):
        self.modules = modules
        self.log = log if log is not None else []
        self.period_step = normalize_period(output_period) // modules["time"].dt

    def update(self):
        step = self.modules["time"].step
        if step % self.period_step == 0:
            state = self.modules["state"]
            state.compactify()
            self.log.append(("output", step, list(state.pid), list(state.X), list(state.alive)))

    def write_particle_variables(self, state):
        pass

    def close(self):
        self.log.append(("close", "output"))
