"""Plug-in IBM for the harnesses: ages particles and kills by a per-step table {step: {pid: flag}}."""
import numpy as np


class IBM:
    def __init__(self, modules, kill=None, age=False, log=None, kill_t0=None, swim=None, settle=None, degdays=None, direct=False, ucur=False, **kw):
        self.modules = modules
        self.kill = kill or {}
        self.age = age
        self.settle = settle or {}  # {step: {pid: flag}}: the particle becomes inactive (stays where it is) from that step on
        self.direct = direct  # read forcing.variables[name] directly (public attribute) instead of calling forcing.field()
        self.ucur = ucur  # store the current the particle feels, forcing.field(X, Y, Z, "u"), in state["ucur"]
        self.degdays = degdays  # name of a forcing field to accumulate into state["degdays"] through the documented accessor forcing.field()
        self.swim = swim  # if given: look up lon/lat of the particles (as a light model would), then move them by `swim` cells in X, in place
        self.kill_t0 = kill_t0  # if given, the kill table is keyed by absolute step (time - kill_t0) / dt
        self.closed = 0
        self.calls = []
        self.log = log

    def update(self):
        state = self.modules["state"]
        timer = self.modules["time"]
        step = timer.step
        self.calls.append((step, len(state.X)))
        if self.log is not None:
            self.log.append(("ibm", step, list(state.pid), list(state.X), list(state.alive)))
        if self.age:
            state["age"] = state.age + timer.dt / np.timedelta64(1, "s")
        if self.degdays and len(state.X):
            force = self.modules["forcing"]
            temp = force.variables[self.degdays] if self.direct else force.field(state.X, state.Y, state.Z, self.degdays)
            state["degdays"] = state.degdays + temp
        if self.ucur and len(state.X):
            state["ucur"] = self.modules["forcing"].field(state.X, state.Y, state.Z, "u")
        if self.swim is not None and len(state.X):
            lon, lat = self.modules["grid"].xy2ll(state.X, state.Y)
            self.last_lonlat = (lon, lat)
            state.X[:] = state.X + self.swim  # in place, as examples/gosouth does
        if self.kill_t0 is None:
            key = step
        elif getattr(timer, "time_reversal", False):
            key = int((self.kill_t0 - timer.time) // timer.dt)
        else:
            key = int((timer.time - self.kill_t0) // timer.dt)
        sflags = self.settle.get(key)
        if sflags and len(state.X):
            smask = np.array([sflags.get(int(p), False) for p in state.pid], dtype=bool)
            state.active[smask] = False
        flags = self.kill.get(key)
        if flags and len(state.X):
            mask = np.array([flags.get(int(p), False) for p in state.pid], dtype=bool)
            state.alive[mask] = False

    def close(self):
        self.closed += 1
        if self.log is not None:
            self.log.append(("close", "ibm"))
