"""C02 spatial interpolation on the C-grid — real ROMS Grid.__init__, Forcing.__init__/update/
_read_velocity/_read_field/velocity/force_particles, z2s, z2s_kernel, sample3D, trilinear,
sample3DUV on a symbolic global file; oracle addresses nodes by physical location."""
import math

from harness import romsfile
from harness.common import T0

PROPERTY = "C02"
RTOL = 1e-6
CLAUSES = {
    "no-crash": "grid and forcing construct and update without exception",
    "velocity": "velocity()/variables[u,v] equal the location-addressed bilinear x linear-in-depth interpolation with zero land faces",
    "scalar": "scalar forcing is the value of the particle's own cell at one of the two bracketing levels",
    "linear-exact": "a field a_k + b x + c y is reproduced exactly (and linear in depth over a flat bottom)",
    "packed": "packed storage (scale_factor and add_offset) gives the unpacked values, with the packing attributes of the file the frame comes from",
}
BOUNDS = {
    "quick": "global 7x6 rho grid, N=2 levels (N=3 on one subgrid), legal subgrids {full, [1,6,1,5], [2,6,1,4], [1,5,2,5]}, 1 particle anywhere in the valid region incl. cell edges, any depth (one scenario with a second particle in another column and depth); all node values, masks, level depths, scale factors symbolic; packing variants: scale and offset, scale only, v only, different packing in the second file, symbolic add_offset of u and v",
    "thorough": "N = 2, 3, 4 levels, subgrid given with negative indices",
}
ASSUMES = ["level depths of every column strictly increasing and negative (ROMS layout; C12 derives them)", "add_offset = 0 for u, v as the source documents",
           "velocity equality implies the weights: the result is linear in the symbolic node values, so equality for all node values fixes every weight (convexity follows from the oracle's explicit weights in [0,1])"]
OUTSIDE = "a single s-level (known finding recorded under C12); float32 storage rounding and np.float32 casts; positions outside the valid region (RK stage positions are C17)"
DT = 600
L, M = 7, 6


def scenarios(tier):
    q = tier == "quick"
    subs = [None, [1, 6, 1, 5], [2, 6, 1, 4], [1, 5, 2, 5]] + ([] if q else [[-6, -1, 1, -1], [3, 6, 2, 5]])
    out = []
    for N in ((2,) if q else (2, 3, 4)):  # N = 1 is the recorded C12 finding (no bracketing pair exists)
        for sg in subs:
            out.append(dict(name=f"interp-N{N}-sub{'full' if sg is None else '_'.join(map(str, sg))}", fn="interp", params=dict(N=N, sub=sg, packed=False), cost=20))
    if q:
        out.append(dict(name="interp-N3-sub2_6_1_4", fn="interp", params=dict(N=3, sub=[2, 6, 1, 4], packed=False), cost=30))
        out.append(dict(name="interp-N3-two-particles", fn="interp", params=dict(N=3, sub=[1, 6, 1, 5], packed=False, two=True), cost=40))
        # wide subgrid (7 x 4 cells), both particles in symbolic cells of the valid region: per-particle bookkeeping keyed on cell indices
        out.append(dict(name="interp-N2-two-particles-wide", fn="interp", params=dict(N=2, sub=[1, 8, 1, 5], packed=False, two="cells", LM=(9, 6)), cost=60))
    out.append(dict(name="band-west", fn="band", params=dict(N=2, sub=[2, 6, 1, 5], side="west"), cost=20))
    out.append(dict(name="band-south", fn="band", params=dict(N=2, sub=[1, 6, 2, 5], side="south"), cost=20))
    out.append(dict(name="packed", fn="interp", params=dict(N=2, sub=[1, 6, 1, 5], packed=True), cost=20))
    out.append(dict(name="packed-offset", fn="interp", params=dict(N=2, sub=[1, 6, 1, 5], packed="offset"), cost=20))
    out.append(dict(name="packed-scale-only", fn="interp", params=dict(N=2, sub=[1, 6, 1, 5], packed="scale-only"), cost=20))
    out.append(dict(name="packed-v-only", fn="interp", params=dict(N=2, sub=[1, 6, 1, 5], packed="v-only"), cost=20))
    out.append(dict(name="packed-second-file", fn="interp", params=dict(N=2, sub=[1, 6, 1, 5], packed=True, twofiles=True), cost=25))
    out.append(dict(name="linear", fn="linear", params=dict(N=2, sub=[1, 6, 1, 5]), cost=10))
    return out


def _norm_sub(sg):
    if sg is None:
        return 1, L - 1, 1, M - 1
    i0, i1, j0, j1 = sg
    if i0 < 0:
        i0 += L
    if i1 < 0:
        i1 += L
    if j0 < 0:
        j0 += M
    if j1 < 0:
        j1 += M
    return i0, i1, j0, j1


def _floor(W, x):
    if W.symbolic:
        return W.idx(W.core.SN.real(x).floor())
    return math.floor(x)


def _rint(W, x):
    if W.symbolic:
        return W.idx(W.core.SN.of(int(W.core.SN.real(x).rint().const())))
    return int(round(x))  # python round = half-even like numpy


def _setup(W, p, fields=None, mask_all_sea=False):
    N = p["N"]
    roms = W.load("ladim.ROMS")
    tk = W.load("ladim.timekeeper")
    st = W.load("ladim.state")
    tmp = W.scratch()
    mask = [[(1 if mask_all_sea else W.ite(W.bool(f"sea_{j}_{i}"), 1, 0)) for i in range(L)] for j in range(M)]
    h = [[100 for i in range(L)] for j in range(M)]
    pm = [[W.frac(1, 800) for i in range(L)] for j in range(M)]
    gs = romsfile.grid_vars(L, M, N, h=h, mask=mask, pm=pm, pn=pm)
    if fields is None:
        # frame 0 symbolic; the later frame (time interpolation is C03) concrete
        u = [[[[W.real(f"u{t}_{k}_{j}_{i}") if t == 0 else 0 for i in range(L - 1)] for j in range(M)] for k in range(N)] for t in range(2)]
        v = [[[[W.real(f"v{t}_{k}_{j}_{i}") if t == 0 else 0 for i in range(L)] for j in range(M - 1)] for k in range(N)] for t in range(2)]
        temp = [[[[W.real(f"T{t}_{k}_{j}_{i}") if t == 0 else 0 for i in range(L)] for j in range(M)] for k in range(N)] for t in range(2)]
    else:
        u, v, temp = fields
    scale = offs = None
    if p.get("packed"):
        su, sv, sT, oT = W.real("scale_u", W.frac(1, 1000), 1), W.real("scale_v", W.frac(1, 1000), 1), W.real("scale_T", W.frac(1, 1000), 1), W.real("offset_T", -5, 5)
        scale, offs = dict(u=su, v=sv, temp=sT), dict(u=0, v=0, temp=oT)
        if p["packed"] == "offset":
            # velocity packed as a CF packer (NCO ncpdq) writes it: with a non-zero add_offset
            offs = dict(u=W.real("offset_u", -1, 1), v=W.real("offset_v", -1, 1), temp=oT)
        elif p["packed"] == "scale-only":
            offs = dict(u=None, v=None, temp=oT)  # scale_factor without an add_offset attribute
        elif p["packed"] == "v-only":
            scale, offs = dict(v=sv, temp=sT), dict(v=0, temp=oT)  # u stored as float, v packed
    forcing_name = str(tmp / "ocean.nc")
    if p.get("twofiles"):
        # the sampled (symbolic) frame lives in the SECOND file, which has its own packing; the first file (frame at the
        # start, zeros) is packed differently.  The harness steps to the second file's frame before sampling.
        romsfile.write(W, tmp / "ocean.nc", gs)
        fdims = dict(xi_rho=L, eta_rho=M, xi_u=L - 1, eta_u=M, xi_v=L, eta_v=M - 1, s_rho=N)
        f1 = romsfile.forcing_vars([T0 - romsfile.REFSEC], [u[1]], [v[1]], extra=dict(temp=[temp[1]]), scale=dict(u=W.frac(1, 2), v=W.frac(1, 4), temp=W.frac(1, 8)), offsets=dict(u=0, v=0, temp=3))
        f2 = romsfile.forcing_vars([T0 - romsfile.REFSEC + DT, T0 - romsfile.REFSEC + 3 * DT], u, v, extra=dict(temp=temp), scale=scale, offsets=offs)
        W.nc_file(tmp / "f_000.nc", dict(f1[0], **fdims), f1[1])
        W.nc_file(tmp / "f_001.nc", dict(f2[0], **fdims), f2[1])
        forcing_name = str(tmp / "f_*.nc")
    else:
        fs = romsfile.forcing_vars([T0 - romsfile.REFSEC, T0 - romsfile.REFSEC + 2 * DT], u, v, extra=dict(temp=temp), scale=scale, offsets=offs)
        romsfile.write(W, tmp / "ocean.nc", gs, fs)
    timer = tk.TimeKeeper(start=W.dt(T0), stop=W.dt(T0 + 2 * DT), dt=DT)
    grid = roms.Grid(filename=str(tmp / "ocean.nc"), subgrid=p["sub"])
    S = st.State(instance_variables=dict(temp=float), default_values=dict(temp=0))
    mods = dict(time=timer, grid=grid, state=S)
    F = roms.Forcing(mods, forcing_name, extra_forcing=["temp"])
    mods["forcing"] = F
    return roms, timer, grid, S, F, (u, v, temp), mask, (scale, offs)


def _zcolumns(W, grid, N, flat=False):
    """overwrite the level depths by arbitrary sorted columns (own symbols), subgrid shaped"""
    i0, i1, j0, j1 = grid.i0, grid.i1, grid.j0, grid.j1
    if flat:
        col = [W.real(f"zf{k}", -100, 0, hi_strict=True) for k in range(N)]
        for k in range(N - 1):
            W.assume(col[k] < col[k + 1], "levels strictly increasing")
    z = {}
    nested = []
    for k in range(N):
        plane = []
        for j in range(j0, j1):
            row = []
            for i in range(i0, i1):
                z[(k, j, i)] = col[k] if flat else W.real(f"z{k}_{j}_{i}", -1000, 0, hi_strict=True)
                row.append(z[(k, j, i)])
            plane.append(row)
        nested.append(plane)
    if not flat:
        for j in range(j0, j1):
            for i in range(i0, i1):
                for k in range(N - 1):
                    W.assume(z[(k, j, i)] < z[(k + 1, j, i)], "levels strictly increasing")
    grid.z_r = W.arr_nd(nested, "f")
    return z


def _vert(W, zcol, depth_neg, N):
    """bracketing level pair and weight for depth -Z in a sorted column: returns (k_lo, k_hi, a) with value = a*F[k_lo] + (1-a)*F[k_hi]"""
    if N == 1:
        return 0, 0, 1
    if W.truth(W.le(depth_neg, zcol[0])):
        return 0, 1, 1
    for k in range(1, N):
        if W.truth(W.le(depth_neg, zcol[k])):
            a = (zcol[k] - depth_neg) / (zcol[k] - zcol[k - 1])
            return k - 1, k, a
    return N - 2, N - 1, 0


def interp(W, p):
    global L, M
    L, M = p.get("LM", (7, 6))
    N = p["N"]
    roms, timer, grid, S, F, (u, v, temp), mask, (scale, offs) = _setup(W, p)
    i0, i1, j0, j1 = _norm_sub(p["sub"])
    z = _zcolumns(W, grid, N)
    # particle anywhere in the valid region of this subgrid
    x = W.real("x", i0 + W.frac(1, 2), i1 - 1 - W.frac(1, 2), lo_strict=True, hi_strict=True)
    y = W.real("y", j0 + W.frac(1, 2), j1 - 1 - W.frac(1, 2), lo_strict=True, hi_strict=True)
    zp = W.real("zp", -10, 2000)
    idx = 0
    if p.get("two") == "cells":
        # both particles sit at fixed offsets inside symbolic cells (all pairs of cells of the valid region are explored)
        ci1, cj1 = W.idx(W.int("cell_i1", i0 + 1, i1 - 2)), W.idx(W.int("cell_j1", j0 + 1, j1 - 2))
        ci0, cj0 = W.idx(W.int("cell_i0", i0 + 1, i1 - 2)), W.idx(W.int("cell_j0", j0 + 1, j1 - 2))
        W.assume(W.all([W.eq(x, ci1 + W.frac(1, 5)), W.eq(y, cj1 - W.frac(3, 10))]), "two-particle scenario: fixed offset inside a symbolic cell")
        S.append(X=ci0 - W.frac(1, 4), Y=cj0 + W.frac(1, 8), Z=W.real("z_other", 0, 120))
        idx = 1
    elif p.get("two"):
        # (the free particle is confined to one cell here; position coverage is the business of the one-particle scenarios)
        W.assume(W.all([W.lt(i0 + 2 - W.frac(2, 5), x), W.lt(x, i0 + 2 + W.frac(2, 5)), W.lt(j0 + 1 - W.frac(2, 5), y), W.lt(y, j0 + 1 + W.frac(2, 5))]), "two-particle scenario: free particle inside one cell")
        # a second particle in another column at another depth goes first: per-particle arrays (K, A, indices) must not be shared
        S.append(X=i0 + 1 + W.frac(1, 4), Y=j0 + 1 + W.frac(3, 4), Z=W.real("z_other", 0, 120))
        idx = 1
    S.append(X=x, Y=y, Z=zp)
    timer.update()
    F.update()
    if p.get("twofiles"):
        timer.update()  # step 1: the frame of the second file is in force
        F.update()
    U, V = F.velocity(S.X, S.Y, S.Z)
    got_u, got_v = W.tolist(U)[idx], W.tolist(V)[idx]
    var_u, var_v = W.tolist(F.variables["u"])[idx], W.tolist(F.variables["v"])[idx]
    got_T = W.tolist(F.variables["temp"])[idx]
    # ---------------- oracle (global coordinates, physical node locations)
    # the particle's own rho cell; exactly on a cell edge either neighbour is a legitimate "own cell"
    res = []
    for ci in _cells(W, x):
        for cj in _cells(W, y):
            res.append(_oracle(W, p, N, x, y, zp, ci, cj, z, u, v, temp, mask, scale, offs))
    clause = "packed" if p.get("packed") else "velocity"
    W.prove(W.any([W.all([W.eq(got_u, eu), W.eq(got_v, ev), W.eq(var_u, eu), W.eq(var_v, ev)]) for eu, ev, _ in res]), clause, dict(cells=[r[2][:2] for r in res], sub=p["sub"]))
    W.prove(W.any([W.any([W.eq(got_T, t) for t in r[2][2]]) for r in res]), "packed" if p.get("packed") else "scalar", dict(cells=[r[2][:2] for r in res]))
    if p.get("two"):
        # the other particle (first in the arrays) is removed after update(): a velocity request for the survivor alone must give
        # the survivor's own velocity (per-particle arrays cached by update() must not be handed to another particle)
        Xs, Ys, Zs = W.tolist(S.X), W.tolist(S.Y), W.tolist(S.Z)
        U1, V1 = F.velocity(W.arr(Xs[idx:idx + 1], "f"), W.arr(Ys[idx:idx + 1], "f"), W.arr(Zs[idx:idx + 1], "f"))
        W.prove(W.all([W.eq(W.tolist(U1)[0], got_u), W.eq(W.tolist(V1)[0], got_v)]), p.get("removal_clause", "velocity"), dict(note="velocity of the survivor after the other particle was removed since update()", sub=p["sub"]))
    return tuple(r[2][:2] + r[2][3] for r in res)


def _cells(W, x):
    fl = _floor(W, x)
    if W.truth(W.eq(x - fl, W.frac(1, 2))):
        return [fl, fl + 1]
    return [_rint(W, x)]


def _oracle(W, p, N, x, y, zp, ci, cj, z, u, v, temp, mask, scale, offs):
    zcol = [z[(k, cj, ci)] for k in range(N)]
    klo, khi, a = _vert(W, zcol, -zp, N)

    def sea(j, i):
        return mask[j][i]

    def uface(j, g):  # u-point g sits between rho cells g and g+1
        return sea(j, g) * sea(j, g + 1)

    def vface(g, i):
        return sea(g, i) * sea(g + 1, i)

    su = scale.get("u", 1) if scale else 1
    sv = scale.get("v", 1) if scale else 1
    ou = ((offs or {}).get("u") or 0) if scale and "u" in scale else 0
    ov = ((offs or {}).get("v") or 0) if scale and "v" in scale else 0
    gu = _floor(W, x - W.frac(1, 2))
    pu = x - W.frac(1, 2) - gu
    ju = _floor(W, y)
    qu = y - ju
    exp_u = 0
    for dj, di, w in ((0, 0, (1 - pu) * (1 - qu)), (0, 1, pu * (1 - qu)), (1, 0, (1 - pu) * qu), (1, 1, pu * qu)):
        jj, gg = ju + dj, gu + di
        node = a * u[0][klo][jj][gg] + (1 - a) * u[0][khi][jj][gg]
        exp_u = exp_u + w * (ou + node * su) * uface(jj, gg)
    iv = _floor(W, x)
    pv = x - iv
    gv = _floor(W, y - W.frac(1, 2))
    qv = y - W.frac(1, 2) - gv
    exp_v = 0
    for dj, di, w in ((0, 0, (1 - pv) * (1 - qv)), (0, 1, pv * (1 - qv)), (1, 0, (1 - pv) * qv), (1, 1, pv * qv)):
        gg, ii = gv + dj, iv + di
        node = a * v[0][klo][gg][ii] + (1 - a) * v[0][khi][gg][ii]
        exp_v = exp_v + w * (ov + node * sv) * vface(gg, ii)
    sT, oT = (scale["temp"], offs["temp"]) if scale else (1, 0)
    return exp_u, exp_v, (ci, cj, [oT + sT * temp[0][klo][cj][ci], oT + sT * temp[0][khi][cj][ci]], (gu, ju, iv, gv, klo, khi))


def band(W, p):
    """velocity asked for in the outermost half cell of [xmin, xmax] x [ymin, ymax] (where the clipped Runge-Kutta stage positions
    may lie): the faces on the rim of the loaded rectangle are land faces when the cell just outside is land"""
    global L, M
    L, M = p.get("LM", (7, 6))
    N = p["N"]
    roms, timer, grid, S, F, (u, v, temp), mask, (scale, offs) = _setup(W, p)
    i0, i1, j0, j1 = _norm_sub(p["sub"])
    z = _zcolumns(W, grid, N)
    # the particle itself sits in a pinned cell of the valid region (its own column gives the levels)
    ci, cj = i0 + 1, j0 + 1
    x, y = ci + W.frac(1, 5), cj - W.frac(1, 10)
    zp = W.real("zp", -10, 2000)
    S.append(X=x, Y=y, Z=zp)
    timer.update()
    F.update()
    side = p["side"]
    if side == "west":
        xq = W.real("xq", i0 + W.frac(1, 100), i0 + W.frac(1, 2))
        yq = W.real("yq", j0 + W.frac(1, 2), j1 - 1 - W.frac(1, 2), lo_strict=True, hi_strict=True)
    else:  # south
        xq = W.real("xq", i0 + W.frac(1, 2), i1 - 1 - W.frac(1, 2), lo_strict=True, hi_strict=True)
        yq = W.real("yq", j0 + W.frac(1, 100), j0 + W.frac(1, 2))
    U, V = F.velocity(W.arr([xq], "f"), W.arr([yq], "f"), S.Z)
    eu, ev, _ = _oracle(W, p, N, xq, yq, zp, ci, cj, z, u, v, temp, mask, scale, offs)
    W.prove(W.all([W.eq(W.tolist(U)[0], eu), W.eq(W.tolist(V)[0], ev)]), "velocity", dict(side=side, sub=p["sub"], note="query in the rim half cell"))
    return (side,)


def _reset_dims(p):
    global L, M
    L, M = p.get("LM", (7, 6))


def linear(W, p):
    """u_k(x,y) = a_k + b x + c y on every level, no land: exact; with a_k linear in a flat column's level depth: linear in depth"""
    _reset_dims(p)
    N = p["N"]
    al, ga, b, c = W.real("alpha", -1, 1), W.real("gamma", -W.frac(1, 100), W.frac(1, 100)), W.real("b", -1, 1), W.real("c", -1, 1)
    # flat column depths are chosen first so the field can be linear in them
    zf = [W.real(f"zf{k}", -100, 0, hi_strict=True) for k in range(N)]
    for k in range(N - 1):
        W.assume(zf[k] < zf[k + 1], "levels strictly increasing")
    u = [[[[al + ga * zf[k] + b * (i + W.frac(1, 2)) + c * j for i in range(L - 1)] for j in range(M)] for k in range(N)] for t in range(2)]
    v = [[[[al + ga * zf[k] + b * i + c * (j + W.frac(1, 2)) for i in range(L)] for j in range(M - 1)] for k in range(N)] for t in range(2)]
    temp = [[[[0 for i in range(L)] for j in range(M)] for k in range(N)] for t in range(2)]
    roms, timer, grid, S, F, _, mask, _ = _setup(W, p, fields=(u, v, temp), mask_all_sea=True)
    i0, i1, j0, j1 = _norm_sub(p["sub"])
    nested = [[[zf[k] for i in range(i0, i1)] for j in range(j0, j1)] for k in range(N)]
    grid.z_r = W.arr_nd(nested, "f")
    x = W.real("x", i0 + W.frac(1, 2), i1 - 1 - W.frac(1, 2), lo_strict=True, hi_strict=True)
    y = W.real("y", j0 + W.frac(1, 2), j1 - 1 - W.frac(1, 2), lo_strict=True, hi_strict=True)
    zp = W.real("zp", -10, 200)
    S.append(X=x, Y=y, Z=zp)
    timer.update()
    F.update()
    if p.get("twofiles"):
        timer.update()  # step 1: the frame of the second file is in force
        F.update()
    U, V = F.velocity(S.X, S.Y, S.Z)
    # clamp(-Z) to the level range
    d = -zp
    if W.truth(W.le(d, zf[0])):
        d = zf[0]
    elif W.truth(W.le(zf[N - 1], d)):
        d = zf[N - 1]
    exp = al + ga * d + b * x + c * y
    W.prove(W.all([W.eq(W.tolist(U)[0], exp), W.eq(W.tolist(V)[0], exp)]), "linear-exact")
    return ("linear",)


def signature(v, scen):
    if v["kind"] == "crash":
        return f"crash:{v['info'].get('exception')}"
    return v["clause"]
