"""C18 one simulation, three spellings — real configure / configure_v2 / configure_v1 on rendered
v2-YAML, v2-TOML and v1-YAML text (real yaml / tomli parsers); leaves are unique tokens so the
data flow into every module's constructor arguments is tracked; optional sections are symbolic flags."""
import os

PROPERTY = "C18"
CLAUSES = {
    "no-crash": "all three spellings are accepted",
    "yaml-toml-equal": "the version-2 YAML and TOML spellings give identical configurations",
    "v1-v2-equal": "the legacy version-1 spelling gives the same constructor arguments for all modules (after the constructors' own normalisation of empty/None/Path values)",
    "grid-default": "an omitted grid section uses the forcing module and the first (sorted) forcing file, also for a wildcard name",
    "runs-equal": "the three spellings of one runnable set-up (YAML with anchors/aliases for repeated encodings, TOML, legacy v1) produce the same output file: dimensions, variables, storage types, attributes and every value",
    "optional-sections": "omitted optional sections (state, ibm, warm_start, grid) behave as empty ones",
}
BOUNDS = {"quick": "(runs-equal: 3-step runs on a 6x6 ROMS grid, 2 release rows with symbolic depth/weight, discrete or continuous, plain or wildcard forcing name, YAML with aliases) all 128 combinations of 7 presence flags (grid section, subgrid, reference time, continuous release, ibm section, particle variables, wildcard forcing name); every leaf a unique token; one scenario with a warm start file named in each spelling (version 1: files.warm_start_file), one more with numrec: 0 and skip_initial: false written out (warm and cold)",
          "thorough": "same plus extra_forcing and diffusion flags (512 combinations)"}
ASSUMES = ["equality of the three runs follows from equal constructor arguments and determinism (C14) for the 128 flag combinations — argued; one runnable set-up (scenario runs-equal) is really run in the three spellings and the files compared",
           "the v1 vocabulary the docstring of configure_v1 supports ('ordinary use cases'): warm_start and ladim1-only keys are not exercised"]
OUTSIDE = "YAML/TOML parser internals"


def scenarios(tier):
    out = [dict(name="spellings", fn="run", params=dict(extra=tier != "quick"), cost=10),
           dict(name="optional-sections", fn="optional", params={}, cost=1)]
    # spelling details: how the version is written, .yml suffix, '?' wildcard, extra_forcing
    for k, (ver, suffix, wild) in enumerate([("2", ".yaml", "*"), ("2.0", ".yml", "?"), ('"2.0"', ".yaml", "*"), (None, ".yml", "?")]):
        # variants 1 and 3 use the legacy vocabulary of the shipped version-1 examples (module ladim.gridforce.ROMS, ibm_forcing, numrec)
        legacy = dict(v1module="ladim.gridforce.ROMS", v1forcingword="ibm_forcing", numrec=True) if k % 2 else {}
        out.append(dict(name=f"variant-{k}", fn="run", params=dict(extra=False, version=ver, suffix=suffix, wild=wild, extra_forcing=True, **legacy), cost=10))
    out.append(dict(name="runs-equal", fn="runs", params={}, cost=10))
    out.append(dict(name="warm-start-spellings", fn="run", params=dict(extra=False, warm=True), cost=10))
    # a warm start with numrec: 0 and skip_initial: false written out in every spelling (the warm start's own default is to skip)
    out.append(dict(name="warm-start-explicit-falsy", fn="run", params=dict(extra=False, warm=True, falsy=True), cost=10))
    out.append(dict(name="cold-explicit-falsy", fn="run", params=dict(extra=False, falsy=True), cost=10))
    return out


def runs(W, p):
    """one runnable set-up in three spellings through the real main(): configure -> Model -> run -> files"""
    from harness import romsfile
    from harness.common import T0

    mainmod = W.load("ladim.main")
    tmp = W.scratch()
    L, M, N, DT = 6, 6, 2, 600
    ones = [[1] * L for _ in range(M)]
    gs = romsfile.grid_vars(L, M, N, h=[[100] * L for _ in range(M)], mask=ones, pm=[[W.frac(1, 800)] * L for _ in range(M)], pn=[[W.frac(1, 800)] * L for _ in range(M)])
    uu = [[[[W.frac(1, 20)] * (L - 1) for _ in range(M)] for _ in range(N)] for _ in range(2)]
    vv = [[[[0] * L for _ in range(M - 1)] for _ in range(N)] for _ in range(2)]
    fs = romsfile.forcing_vars([T0 - romsfile.REFSEC, T0 - romsfile.REFSEC + 4 * DT], uu, vv)
    for nm in ("ocean_0012.nc", "ocean_001.nc"):
        (tmp / nm).touch()  # the glob of the wildcard name must find the file on disk (the decoy does not match ocean_00?.nc)
    romsfile.write(W, tmp / "ocean_001.nc", gs, fs)
    wild = W.idx(W.int("wildcard", 0, 2))  # plain name, '?' wildcard, character class (all resolved by Path.glob in the forcing module)
    forcing_name = str(tmp / ("ocean_001.nc", "ocean_00?.nc", "ocean_00[1].nc")[wild])
    x0, y0, z0, w0 = W.frac(11, 4), W.frac(5, 2), W.real("z0", 0, 99), W.real("w0")  # horizontal start concrete (cell rounding is C02/C09's subject)
    cont = W.truth(W.bool("continuous"))
    defmod = W.truth(W.bool("default_modules"))  # forcing.module omitted (ladim.ROMS is the default for forcing and grid)
    cols = ["release_time", "X", "Y", "Z", "w0"]
    W.table(tmp / "rel.rls", cols, [[W.dt(T0), x0, y0, z0, w0], [W.dt(T0 + DT), x0, y0 + W.frac(1, 4), z0, w0 + 1]], header=False)
    start, stop = "2000-01-04 00:00:00", "2000-01-04 00:30:00"
    lname = dict(pid="particle identifier", X="particle X-coordinate", Y="particle Y-coordinate", Z="particle depth", w0="weight")
    outs = {}
    for tag in ("y2", "t2", "y1"):
        (tmp / tag).mkdir()
        outs[tag] = tmp / tag / "out.nc"
    y2 = ["version: 2", "time:", f"    start: {start}", f"    stop: {stop}", f"    dt: {DT}",
          "forcing:"] + ([] if defmod else ["    module: ladim.ROMS"]) + [f"    filename: {forcing_name}",
          "state:", "    instance_variables: {}", "    particle_variables: {w0: float}", "    default_values: {}",
          "tracker:", "    advection: EF",
          "release:", f"    release_file: {tmp / 'rel.rls'}", f"    names: [{', '.join(cols)}]"]
    if cont:
        y2 += ["    continuous: true", f"    release_frequency: {2 * DT}"]
    # repeated encodings written once and referred to by alias (ordinary YAML)
    y2 += ["output:", f"    filename: {outs['y2']}", f"    output_period: {DT}", "    instance_variables:",
           f"        pid: {{encoding: {{datatype: i4}}, attributes: {{long_name: {lname['pid']}}}}}",
           f"        X: {{encoding: &float64 {{datatype: f8}}, attributes: {{long_name: {lname['X']}}}}}",
           f"        Y: {{encoding: *float64, attributes: {{long_name: {lname['Y']}}}}}",
           f"        Z: {{encoding: &float32 {{datatype: f4}}, attributes: {{long_name: {lname['Z']}}}}}",
           "    particle_variables:",
           f"        w0: {{encoding: *float32, attributes: {{long_name: {lname['w0']}}}}}"]

    def tq(s_):
        return '"' + str(s_) + '"'

    t2 = ["version = 2", "[time]", f"start = {start.replace(' ', 'T')}", f"stop = {stop.replace(' ', 'T')}", f"dt = {DT}",
          "[forcing]"] + ([] if defmod else ['module = "ladim.ROMS"']) + [f"filename = {tq(forcing_name)}",
          "[state]", "instance_variables = {}", 'particle_variables = {w0 = "float"}', "default_values = {}",
          "[tracker]", 'advection = "EF"',
          "[release]", f"release_file = {tq(tmp / 'rel.rls')}", "names = [" + ", ".join(tq(c) for c in cols) + "]"]
    if cont:
        t2 += ["continuous = true", f"release_frequency = {2 * DT}"]
    t2 += ["[output]", f"filename = {tq(outs['t2'])}", f"output_period = {DT}", "[output.instance_variables]",
           f'pid = {{encoding = {{datatype = "i4"}}, attributes = {{long_name = {tq(lname["pid"])}}}}}']
    t2 += [f'{v} = {{encoding = {{datatype = "{"f4" if v == "Z" else "f8"}"}}, attributes = {{long_name = {tq(lname[v])}}}}}' for v in ("X", "Y", "Z")]
    t2 += ["[output.particle_variables]", f'w0 = {{encoding = {{datatype = "f4"}}, attributes = {{long_name = {tq(lname["w0"])}}}}}']
    y1 = ["time_control:", f"    start_time: {start}", f"    stop_time: {stop}",
          "files:", f"    particle_release_file: {tmp / 'rel.rls'}", f"    output_file: {outs['y1']}",
          "gridforce:", "    module: ladim1.gridforce.ROMS", f"    input_file: {forcing_name}",
          "particle_release:", f"    variables: [{', '.join(cols)}]", "    particle_variables: [w0]"]
    if cont:
        y1 += ["    release_type: continuous", f"    release_frequency: {2 * DT}"]
    y1 += ["output_variables:", f"    outper: {DT}", "    instance: [pid, X, Y, Z]", "    particle: [w0]",
           f"    pid: {{ncformat: i4, long_name: {lname['pid']}}}"]
    y1 += [f"    {v}: {{ncformat: {'f8' if v in ('X', 'Y') else 'f4'}, long_name: {lname[v]}}}" for v in ("X", "Y", "Z", "w0")]
    y1 += ["numerics:", f"    dt: {DT}", "    advection: EF", "    diffusion: 0"]
    (tmp / "y2" / "conf.yaml").write_text("\n".join(y2) + "\n")
    (tmp / "t2" / "conf.toml").write_text("\n".join(t2) + "\n")
    (tmp / "y1" / "conf.yaml").write_text("\n".join(y1) + "\n")
    res = {}
    for tag, fn in (("y2", "conf.yaml"), ("t2", "conf.toml"), ("y1", "conf.yaml")):
        mainmod.main(tmp / tag / fn)
        res[tag] = W.nc_read(outs[tag])
    ref = res["t2"]
    for tag in ("y2", "y1"):
        d = res[tag]
        same_shape = d["dims"] == ref["dims"] and sorted(d["vars"]) == sorted(ref["vars"])
        types = {v: (d["types"].get(v), ref["types"].get(v)) for v in ref["vars"] if d["types"].get(v) != ref["types"].get(v)}
        atts = {v: (d["atts"].get(v), ref["atts"].get(v)) for v in ref["vars"] if _attn(d["atts"].get(v)) != _attn(ref["atts"].get(v))}
        W.prove(same_shape and not types and not atts, "runs-equal", dict(spelling=tag, against="t2", dims=(d["dims"], ref["dims"]), type_diff=types, att_diff=str(atts)[:300]))
        conds = []
        if same_shape:
            for v in ref["vars"]:
                a, b = _flat(d["vars"][v]), _flat(ref["vars"][v])
                if len(a) != len(b):
                    conds.append(False)
                    continue
                for x, y in zip(a, b):
                    if W.is_fill(x) or W.is_fill(y):
                        conds.append(W.is_fill(x) and W.is_fill(y))
                    else:
                        conds.append(W.eq(x, y))
        W.prove(W.all(conds) if all(c is not False for c in conds) else False, "runs-equal", dict(spelling=tag, against="t2", note="values"))
    return (wild, cont)


def _attn(a):
    return {k: (str(v)) for k, v in (a or {}).items()}


def _flat(x):
    if isinstance(x, (list, tuple)):
        out = []
        for y in x:
            out += _flat(y)
        return out
    return [x]


def _tok(n):
    return 7000 + n


def run(W, p):
    conf = W.load("ladim.configure")
    flags = {k: W.truth(W.bool(k)) for k in ("has_grid", "has_subgrid", "has_ref", "continuous", "has_ibm", "has_pvars", "wildcard")}
    if p["extra"]:
        flags.update({k: W.truth(W.bool(k)) for k in ("extra_forcing", "diffusion")})
    else:
        flags.update(extra_forcing=bool(p.get("extra_forcing")), diffusion=True)
    if flags["has_subgrid"] and not flags["has_grid"]:
        W.assume(False, "a subgrid needs a grid section")
    tmp = W.scratch()
    # forcing files created in reverse order so that an unsorted glob would pick the wrong one
    for n in ("ocean_003.nc", "ocean_001.nc", "ocean_002.nc"):
        (tmp / n).touch()
    wild = p.get("wild", "*")
    forcing_name = str(tmp / (("ocean_*.nc" if wild == "*" else "ocean_00?.nc") if flags["wildcard"] else "ocean_001.nc"))
    gridfile = str(tmp / "grid.nc")
    (tmp / "grid.nc").touch()
    dt, outv, freqv, diff = _tok(1), _tok(2), _tok(3), _tok(4)
    sub = [_tok(13), _tok(11), _tok(14), _tok(12)]  # deliberately not monotone
    ibmopt = _tok(21)
    relvars = ["mult", "release_time", "X", "Y", "Z"] + (["super", "farm"] if flags["has_pvars"] else [])
    start, stop, ref = "2000-01-04 00:00:00", "2000-01-09 00:00:00", "1999-12-31 00:00:00"

    # ---------------------------------------------------------------- version 2, YAML
    ver = p.get("version", "2")
    y2 = ([f"version: {ver}"] if ver is not None else []) + ["time:", f"    start: {start}", f"    stop: {stop}", f"    dt: {dt}"]
    if flags["has_ref"]:
        y2.append(f"    reference: {ref}")
    if flags["has_grid"]:
        y2 += ["grid:", "    module: ladim.ROMS", f"    filename: {gridfile}"]
        if flags["has_subgrid"]:
            y2.append(f"    subgrid: [{', '.join(map(str, sub))}]")
    y2 += ["forcing:", "    module: ladim.ROMS", f"    filename: {forcing_name}"]
    if flags["extra_forcing"]:
        y2.append("    extra_forcing: [temp, salt]")
    st_i = (["age: float"] if flags["has_ibm"] else []) + (["temp: float", "salt: float"] if flags["extra_forcing"] else [])  # extra forcing fields are state variables
    st_p = (["super: float", "farm: int"] if flags["has_pvars"] else [])  # a non-default type: the legacy per-column converter must survive
    y2 += ["state:", "    instance_variables: {" + ", ".join(st_i) + "}", "    particle_variables: {" + ", ".join(st_p) + "}",
           "    default_values: {" + ", ".join((["age: 0"] if flags["has_ibm"] else []) + (["temp: 0", "salt: 0"] if flags["extra_forcing"] else [])) + "}"]
    y2 += ["tracker:", "    advection: RK4"] + ([f"    diffusion: {diff}"] if flags["diffusion"] else [])
    y2 += ["release:", "    release_file: rel.rls", f"    names: [{', '.join(relvars)}]"]
    if flags["continuous"]:
        y2 += ["    continuous: true", f"    release_frequency: [{freqv}, h]"]
    if flags["has_ibm"]:
        y2 += ["ibm:", "    module: my_ibm", f"    lifetime: {ibmopt}"]
    y2 += ["output:", "    filename: out.nc", f"    output_period: [{outv}, h]", "    instance_variables:",
           "        pid: {encoding: {datatype: i4}, attributes: {long_name: particle identifier}}",
           "        X: {encoding: {datatype: f4}, attributes: {long_name: particle X-coordinate}}",
           "    particle_variables:" + ("" if flags["has_pvars"] else " {}")]
    if flags["has_pvars"]:
        y2 += ["        super: {encoding: {datatype: f4}, attributes: {long_name: number of individuals}}"]
    y2 += ["    ncargs: {data_model: NETCDF3_CLASSIC}"]
    if p.get("numrec"):
        y2 += [f"    numrec: {_tok(31)}", "    skip_initial: true"]
    if p.get("falsy"):
        # options written out with the value a warm start would not choose by itself (a key that is present must survive the translation)
        y2 += ["    numrec: 0", "    skip_initial: false"]

    # ---------------------------------------------------------------- version 2, TOML
    def tq(s):
        return '"' + s + '"'

    t2 = ([f"version = {ver}"] if ver is not None else []) + ["[time]", f"start = {start.replace(' ', 'T')}", f"stop = {stop.replace(' ', 'T')}", f"dt = {dt}"]
    if flags["has_ref"]:
        t2.append(f"reference = {ref.replace(' ', 'T')}")
    if flags["has_grid"]:
        t2 += ["[grid]", 'module = "ladim.ROMS"', f"filename = {tq(gridfile)}"]
        if flags["has_subgrid"]:
            t2.append(f"subgrid = [{', '.join(map(str, sub))}]")
    t2 += ["[forcing]", 'module = "ladim.ROMS"', f"filename = {tq(forcing_name)}"]
    if flags["extra_forcing"]:
        t2.append('extra_forcing = ["temp", "salt"]')
    t2 += ["[state]", "instance_variables = {" + ", ".join((['age = "float"'] if flags["has_ibm"] else []) + (['temp = "float"', 'salt = "float"'] if flags["extra_forcing"] else [])) + "}",
           "particle_variables = {" + ('super = "float", farm = "int"' if flags["has_pvars"] else "") + "}",
           "default_values = {" + ", ".join((["age = 0"] if flags["has_ibm"] else []) + (["temp = 0", "salt = 0"] if flags["extra_forcing"] else [])) + "}"]
    t2 += ["[tracker]", 'advection = "RK4"'] + ([f"diffusion = {diff}"] if flags["diffusion"] else [])
    t2 += ["[release]", 'release_file = "rel.rls"', "names = [" + ", ".join(tq(v) for v in relvars) + "]"]
    if flags["continuous"]:
        t2 += ["continuous = true", f'release_frequency = [{freqv}, "h"]']
    if flags["has_ibm"]:
        t2 += ["[ibm]", 'module = "my_ibm"', f"lifetime = {ibmopt}"]
    t2 += ["[output]", 'filename = "out.nc"', f'output_period = [{outv}, "h"]', 'ncargs = {data_model = "NETCDF3_CLASSIC"}'] + ([f"numrec = {_tok(31)}", "skip_initial = true"] if p.get("numrec") else []) + (["numrec = 0", "skip_initial = false"] if p.get("falsy") else []) + [
           "[output.instance_variables]",
           'pid = {encoding = {datatype = "i4"}, attributes = {long_name = "particle identifier"}}',
           'X = {encoding = {datatype = "f4"}, attributes = {long_name = "particle X-coordinate"}}',
           "[output.particle_variables]"]
    if flags["has_pvars"]:
        t2 += ['super = {encoding = {datatype = "f4"}, attributes = {long_name = "number of individuals"}}']

    # ---------------------------------------------------------------- version 1, YAML
    y1 = ["time_control:", f"    start_time: {start}", f"    stop_time: {stop}"]
    if flags["has_ref"]:
        y1.append(f"    reference_time: {ref}")
    y1 += ["files:", "    particle_release_file: rel.rls", "    output_file: out.nc"]
    y1 += ["gridforce:", f"    module: {p.get('v1module', 'ladim1.gridforce.ROMS')}", f"    input_file: {forcing_name}"]
    if flags["has_grid"]:
        y1.append(f"    gridfile: {gridfile}")
        if flags["has_subgrid"]:
            y1.append(f"    subgrid: [{', '.join(map(str, sub))}]")
    if flags["extra_forcing"]:
        y1.append(f"    {p.get('v1forcingword', 'extra_forcing')}: [temp, salt]")
    y1 += ["particle_release:", f"    variables: [{', '.join(relvars)}]"]
    if flags["continuous"]:
        y1 += ["    release_type: continuous", f"    release_frequency: [{freqv}, h]"]
    if flags["has_pvars"]:
        y1 += ["    particle_variables: [super, farm]", "    farm: int"]  # super has no converter: defaults to float
    if flags["has_ibm"]:
        y1 += ["ibm:", "    ibm_module: my_ibm", "    variables: [age]", f"    lifetime: {ibmopt}"]
    y1 += ["output_variables:", f"    outper: [{outv}, h]"] + ([f"    numrec: {_tok(31)}", "    skip_initial: true"] if p.get("numrec") else []) + (["    numrec: 0", "    skip_initial: false"] if p.get("falsy") else []) + [ "    instance: [pid, X]", "    particle: [" + ("super" if flags["has_pvars"] else "") + "]",
           "    pid: {ncformat: i4, long_name: particle identifier}", "    X: {ncformat: f4, long_name: particle X-coordinate}"]
    if flags["has_pvars"]:
        y1 += ["    super: {ncformat: f4, long_name: number of individuals}"]
    y1 += ["numerics:", f"    dt: {dt}", "    advection: RK4", f"    diffusion: {diff if flags['diffusion'] else 0}"]

    if p.get("warm"):
        # a warm start named in each spelling (version 1: files.warm_start_file, as doc/source and examples/line/ladim1.yaml say)
        wfile = str(tmp / "restart_001.nc")
        W.nc_file(tmp / "restart_001.nc", dict(time=2), dict(time=(("time",), [7200, 10800], dict(units="seconds since 2000-01-04 00:00:00"))))
        y2 += ["warm_start:", f"    filename: {wfile}"]
        t2 += ["[warm_start]", f"filename = {tq(wfile)}"]
        y1[y1.index("files:") + 1:y1.index("files:") + 1] = [f"    warm_start_file: {wfile}"]

    ysuf = p.get("suffix", ".yaml")
    (tmp / ("v2" + ysuf)).write_text("\n".join(y2) + "\n")
    (tmp / "v2.toml").write_text("\n".join(t2) + "\n")
    (tmp / "v1.yaml").write_text("\n".join(y1) + "\n")
    cwd = os.getcwd()
    os.chdir(tmp)
    real_path = conf.Path
    conf.Path = _adversarial_path(real_path)  # directory listings come in arbitrary order: return them reverse-sorted
    try:
        c_y2 = conf.configure(tmp / ("v2" + ysuf))
        c_t2 = conf.configure(tmp / "v2.toml")
        c_y1 = conf.configure(tmp / "v1.yaml")
    finally:
        conf.Path = real_path
        os.chdir(cwd)
    for nm, c in (("v2-yaml", c_y2), ("v2-toml", c_t2), ("v1-yaml", c_y1)):
        bad = [sec for sec in SECTIONS if not isinstance(c.get(sec), dict)]
        W.prove(not bad, "optional-sections", dict(spelling=nm, not_a_dict=bad, note="Model needs every section as a dict"))
    n_y2, n_t2, n_y1 = (_norm(c) for c in (c_y2, c_t2, c_y1))
    W.prove(n_y2 == n_t2, "yaml-toml-equal", dict(diff=_diff(n_y2, n_t2), flags=flags))
    W.prove(n_y2 == n_y1, "v1-v2-equal", dict(diff=_diff(n_y2, n_y1), flags=flags))
    if not flags["has_grid"]:
        g = n_y2["grid"]
        W.prove(g.get("module") == "ladim.ROMS" and g.get("filename") == str(tmp / "ocean_001.nc"), "grid-default", dict(grid=g, flags=flags))
    else:
        W.prove(n_y2["grid"].get("filename") == gridfile, "grid-default", dict(grid=n_y2["grid"]))
    if p.get("falsy"):
        W.prove(all(c["output"].get("skip_initial") is False and c["output"].get("numrec") == 0 for c in (c_y2, c_t2, c_y1)), "v1-v2-equal",
                dict(got=[(c["output"].get("skip_initial"), c["output"].get("numrec")) for c in (c_y2, c_t2, c_y1)], note="explicit numrec: 0 / skip_initial: false survive in every spelling"))
    if p.get("warm"):
        ws = n_y2.get("warm_start", {})
        W.prove(ws.get("filename") == wfile and str(n_y2["time"].get("start"))[:19].replace("T", " ") == "2000-01-04 03:00:00", "v1-v2-equal",
                dict(warm_start=ws, start=n_y2["time"].get("start"), note="control: the version 2 spelling starts at the last record of the restart file"))
    return tuple(sorted(k for k, v in flags.items() if v))


SECTIONS = ("state", "time", "grid", "forcing", "release", "tracker", "ibm", "output", "warm_start")


def _adversarial_path(real):
    class P(type(real())):
        def glob(self, pattern, **kw):
            return iter(sorted(super().glob(pattern, **kw), reverse=True))

    return P


def _norm(c):
    """constructor-level normalisation: Path -> str, None/{}/[] sections and values dropped, tuples -> lists"""
    from pathlib import Path

    def n(x):
        if isinstance(x, Path):
            return str(x)
        if isinstance(x, dict):
            out = {k: n(v) for k, v in x.items()}
            return {k: v for k, v in out.items() if v not in (None, {}, [])}
        if isinstance(x, (list, tuple)):
            return [n(v) for v in x]
        if hasattr(x, "isoformat") or (hasattr(x, "astype") and not hasattr(x, "shape")) or type(x).__name__ in ("DT", "datetime64"):
            return str(x)[:19].replace("T", " ")  # dates, and the datetime64 a warm start puts into time.start
        return x

    out = {}
    for sec in ("state", "time", "grid", "forcing", "release", "tracker", "ibm", "output", "warm_start"):
        out[sec] = n(c.get(sec) or {})
    out["time"] = {k: (v if k != "start" or not hasattr(v, "astype") else str(v)) for k, v in out["time"].items()}
    return out


def _diff(a, b, path=""):
    if a == b:
        return []
    if isinstance(a, dict) and isinstance(b, dict):
        out = []
        for k in sorted(set(a) | set(b)):
            if a.get(k) != b.get(k):
                out += _diff(a.get(k), b.get(k), f"{path}/{k}")
        return out[:8]
    return [f"{path}: {a!r} != {b!r}"[:200]]


def optional(W, p):
    """v2: omitted optional sections = empty ones"""
    conf = W.load("ladim.configure")
    tmp = W.scratch()
    (tmp / "ocean.nc").touch()
    base = ["version: 2", "time: {start: 2000-01-04, stop: 2000-01-05, dt: 600}", f"forcing: {{module: ladim.ROMS, filename: {tmp / 'ocean.nc'}}}",
            "tracker: {advection: EF}", "release: {release_file: r.rls}", "output: {filename: o.nc, output_period: 3600, instance_variables: {}}"]
    full = base + ["state: {}", "ibm: {}", "warm_start: {}", f"grid: {{module: ladim.ROMS, filename: {tmp / 'ocean.nc'}}}"]
    (tmp / "a.yaml").write_text("\n".join(base) + "\n")
    (tmp / "b.yaml").write_text("\n".join(full) + "\n")
    ca, cb = conf.configure(tmp / "a.yaml"), conf.configure(tmp / "b.yaml")
    bad = [sec for sec in SECTIONS for c in (ca, cb) if not isinstance(c.get(sec), dict)]
    a, b = _norm(ca), _norm(cb)
    W.prove(a == b and not bad, "optional-sections", dict(diff=_diff(a, b), not_a_dict=bad))
    # a section heading with nothing (or only a comment) below it: YAML reads it as null
    for sec in ("state", "ibm", "warm_start", "grid"):
        (tmp / "e.yaml").write_text("\n".join(base + [f"{sec}:", "    # nothing set here"]) + "\n")
        try:
            ce = conf.configure(tmp / "e.yaml")
            bad_e = [x for x in SECTIONS if not isinstance(ce.get(x), dict)]
            W.prove(_norm(ce) == a and not bad_e, "optional-sections", dict(empty_section=sec, diff=_diff(_norm(ce), a), not_a_dict=bad_e))
        except (Exception, SystemExit) as exc:
            W.prove(False, "optional-sections", dict(empty_section=sec, exception=f"{type(exc).__name__}: {exc}"[:200]))
    # a missing mandatory section is refused
    for missing in ("tracker", "time", "release", "output", "forcing"):
        lines = [ln for ln in base if not ln.startswith(missing + ":")]
        (tmp / "c.yaml").write_text("\n".join(lines) + "\n")
        try:
            conf.configure(tmp / "c.yaml")
            ok = False
        except (SystemExit, KeyError):
            ok = True
        W.prove(ok, "optional-sections", dict(missing=missing, note="mandatory section must be refused"))
    return ("optional",)


def signature(v, scen):
    return v["clause"]
