"""C04 release accounting — real ladim.release.ParticleReleaser (the installed pandas runs on
object frames of symbolic cells; only read_csv is stubbed) + real State + real TimeKeeper."""

PROPERTY = "C04"
CLAUSES = {
    "constructs": "a release file with rows inside the window is accepted (no exception)",
    "count": "every step releases exactly the scheduled number of particles (mult copies per row)",
    "values": "new particles carry the row's position and extra columns, in file-row order, with consecutive pids",
    "total": "total_particle_count equals the number of particles scheduled in [start, stop) (rows exactly at stop may or may not be counted)",
    "lonlat": "rows given by lon/lat start at grid.ll2xy(lon, lat) (an affine stand-in, and the real ROMS Grid.ll2xy on wide and tall affine grids)",
    "typed-columns": "an integer extra column and the time-typed release_time variable arrive unchanged (release_time = the row's release time, per particle)",
}
BOUNDS = {
    "quick": "rows R<=3, release times on the dt lattice at steps -2..Nsteps+1 (nondecreasing, ties allowed), mult 0..2, window Nsteps<=3, continuous frequency 1..2 steps, forward and reversed, header in file or names in config",
    "thorough": "R<=4 (mult 0..1 for R=4), Nsteps<=5, mult 0..3, frequency 1..3 steps, lon/lat rows through an affine ll2xy",
}
ASSUMES = ["release times on the model time grid (continuous: file times on the frequency grid anchored at the first file time), table sorted in simulation order",
           "pandas treats object-dtype columns/index of ordered hashable keys like datetime64/float64 ones for filter/groupby/join/ffill/explode (checked concretely by the conformance replays)",
           "pd.read_csv returns the table that the text describes (the parser itself is outside the claim)"]
OUTSIDE = "CSV text parsing (dates, whitespace, quoting); times off the time/frequency grid; unsorted tables"
DT = 600
START = 946684800 + 86400 * 3


def scenarios(tier):
    out = []
    q = tier == "quick"
    for rev in (False, True):
        for R in ((1, 2, 3) if q else (1, 2, 3, 4)):
            for N in ((3,) if q else (3, 5)):
                out.append(dict(name=f"discrete-R{R}-N{N}-{'rev' if rev else 'fwd'}", fn="run", params=dict(R=R, N=N, rev=rev, cont=0, mmax=(2 if q else 3) if R < 4 else 1, names=False), cost=R ** 3 * N, max_paths=100000))
        for R in ((1, 2) if q else (1, 2, 3)):
            for f in ((1, 2) if q else (1, 2, 3)):
                N = 3 if q else 5
                out.append(dict(name=f"continuous-R{R}-f{f}-N{N}-{'rev' if rev else 'fwd'}", fn="run", params=dict(R=R, N=N, rev=rev, cont=f, mmax=2, names=False), cost=R ** 3 * N * 2))
    out.append(dict(name="names-in-config", fn="run", params=dict(R=2, N=3, rev=False, cont=0, mmax=1, names=True), cost=5))
    # discrete tables whose rows are not in time order (e.g. ordered by location): each row still enters at the step of its own time
    out.append(dict(name="unsorted-disc-fwd", fn="run", params=dict(R=3, N=3, rev=False, cont=0, mmax=1, names=False, unsorted=True), cost=8))
    out.append(dict(name="unsorted-disc-rev", fn="run", params=dict(R=3, N=3, rev=True, cont=0, mmax=1, names=False, unsorted=True), cost=8))
    out.append(dict(name="unsorted-cont-fwd", fn="run", params=dict(R=2, N=3, rev=False, cont=1, mmax=1, names=False, unsorted=True), cost=8))
    out.append(dict(name="unsorted-cont-rev", fn="run", params=dict(R=2, N=3, rev=True, cont=1, mmax=1, names=False, unsorted=True), cost=8))
    out.append(dict(name="subtick-continuous", fn="subtick", params=dict(mode="continuous"), cost=3))
    out.append(dict(name="subtick-discrete", fn="subtick", params=dict(mode="discrete"), cost=3))
    out.append(dict(name="both-positions", fn="run", params=dict(R=2, N=3, rev=False, cont=0, mmax=1, names=False, bothpos=True), cost=5))
    out.append(dict(name="typed-disc", fn="run", params=dict(R=2, N=3, rev=False, cont=0, mmax=2, names=False, typed=True), cost=5))
    out.append(dict(name="typed-cont", fn="run", params=dict(R=2, N=3, rev=False, cont=1, mmax=1, names=True, typed=True), cost=5))
    out.append(dict(name="lonlat", fn="run", params=dict(R=2, N=3, rev=False, cont=0, mmax=1, names=False, lonlat=True), cost=5))
    # the same through the real ROMS Grid.ll2xy (inverse bilinear interpolation) on a wide and on a tall affine grid
    out.append(dict(name="lonlat-roms-wide", fn="run", params=dict(R=2, N=3, rev=False, cont=0, mmax=1, names=False, lonlat=True, roms=(9, 5)), cost=10))
    out.append(dict(name="lonlat-roms-tall", fn="run", params=dict(R=2, N=3, rev=False, cont=0, mmax=1, names=False, lonlat=True, roms=(5, 9)), cost=10))
    out.append(dict(name="lonlat-roms-wide-fixed", fn="run", params=dict(R=2, N=3, rev=False, cont=0, mmax=1, names=False, lonlat=True, roms=(9, 5), fixedpos=True), cost=5))
    out.append(dict(name="lonlat-roms-tall-fixed", fn="run", params=dict(R=2, N=3, rev=False, cont=0, mmax=1, names=False, lonlat=True, roms=(5, 9), fixedpos=True), cost=5))
    return out


class _AffineGrid:
    """ll2xy stand-in for lon/lat rows: x = (lon - 4)/2, y = (lat - 60)*4 (any callable grid works for the releaser)"""

    def __init__(self, W):
        self.W = W

    def ll2xy(self, lon, lat):
        return (lon - 4) / 2, (lat - 60) * 4


def run(W, p):
    R, N, rev, cont = p["R"], p["N"], p["rev"], p["cont"]
    sgn = -1 if rev else 1
    tk = W.load("ladim.timekeeper")
    st = W.load("ladim.state")
    rel = W.load("ladim.release")
    lonlat = p.get("lonlat", False)
    # --- the table: times at step offsets m_i (simulation order), several rows per time allowed
    m = [W.int(f"m{i}", -2, N + 1) for i in range(R)]
    for i in range(R - 1):
        if not p.get("unsorted"):
            W.assume(m[i] <= m[i + 1], "rows sorted in simulation order")
    mc = [W.idx(x) for x in m]
    if cont:
        for i in range(R):
            W.assume((mc[i] - min(mc)) % cont == 0, "file times on the frequency grid anchored at the first file time (first in simulation order)")
    mult = [W.idx(W.int(f"mult{i}", 0, p["mmax"])) for i in range(R)]
    if p.get("fixedpos"):
        # concrete lon/lat (grid positions (Lr - 3 + 1/4, Mr - 3 + 1/2) and (2 + 1/4, 1 + 1/2) of the affine ROMS grid below): a change
        # that makes the inverse iteration run to its limit stays decidable (symbolic positions make its exact Newton steps explode)
        Lr_, Mr_ = p["roms"]
        xs = [4 + 2 * (((Lr_ - 3), 2)[i % 2] + W.frac(1, 4)) for i in range(R)]
        ys = [60 + (((Mr_ - 3), 1)[i % 2] + W.frac(1, 2)) * W.frac(1, 4) for i in range(R)]
    else:
        xs = [W.real(f"x{i}") for i in range(R)]
        ys = [W.real(f"y{i}") for i in range(R)]
    zs = [W.real(f"z{i}", 0, 100) for i in range(R)]
    tags = [W.real(f"tag{i}") for i in range(R)]
    farms = [W.int(f"farm{i}", 0, 10 ** 6) for i in range(R)]
    times = [W.dt(START + sgn * mc[i] * DT) for i in range(R)]
    tmp = W.scratch()
    path = tmp / "release.rls"
    if lonlat:
        cols = ["release_time", "lon", "lat", "Z", "mult", "tag", "farm"]
    else:
        cols = ["release_time", "X", "Y", "Z", "mult", "tag", "farm"]
    rows = [[times[i], xs[i], ys[i], zs[i], mult[i], tags[i], farms[i]] for i in range(R)]
    if p.get("bothpos"):
        # the table gives the position twice, as X, Y and as lon, lat (documented: X and Y are used); lon/lat are no state variables
        cols = cols + ["lon", "lat"]
        rows = [r + [W.real(f"lon{i}"), W.real(f"lat{i}")] for i, r in enumerate(rows)]
    typed = bool(p.get("typed"))
    if typed:
        # two more declared columns: a time (ISO text in the file) and the activity flag written as 0/1
        hatch = [W.dt(START - 86400 * (i + 1)) for i in range(R)]
        act = [W.idx(W.int(f"act{i}", 0, 1)) for i in range(R)]
        cols = cols + ["hatch", "active"]
        rows = [r + [hatch[i], act[i]] for i, r in enumerate(rows)]
    W.table(path, cols, rows, header=not p["names"])
    timer = tk.TimeKeeper(start=W.dt(START), stop=W.dt(START + sgn * N * DT), dt=DT, time_reversal=rev)
    S = st.State(instance_variables=dict(tag=float, farm=int, **(dict(hatch="time") if p.get("typed") else {})), particle_variables=dict(release_time="time"))
    grid = _AffineGrid(W) if lonlat else None
    if p.get("roms"):
        # real ROMS grid with lon = 4 + 2 i, lat = 60 + j / 4 (the same affine map as the stand-in); rows pinned inside cells
        # towards the far end of the longer side (one Newton step is exact on an affine grid)
        from harness import romsfile

        Lr, Mr = p["roms"]
        ones = [[1] * Lr for _ in range(Mr)]
        gs = romsfile.grid_vars(Lr, Mr, 2, h=[[100] * Lr for _ in range(Mr)], mask=ones, pm=[[W.frac(1, 800)] * Lr for _ in range(Mr)], pn=[[W.frac(1, 800)] * Lr for _ in range(Mr)])
        romsfile.write(W, tmp / "grid.nc", gs)
        grid = W.load("ladim.ROMS").Grid(filename=str(tmp / "grid.nc"))
        cells = [(Lr - 3, Mr - 3), (2, 1)]
        for i in range(R):
            cx, cy = cells[i % 2]
            gx, gy = (xs[i] - 4) / 2, (ys[i] - 60) * 4
            W.assume(W.all([W.lt(cx + W.frac(1, 10), gx), W.lt(gx, cx + W.frac(9, 10)), W.lt(cy + W.frac(1, 10), gy), W.lt(gy, cy + W.frac(9, 10))]), "lon/lat rows pinned inside a grid cell")
    mods = dict(time=timer, grid=grid, state=S)
    kw = {}
    if cont:
        kw.update(continuous=True, release_frequency=cont * DT)
    if p["names"]:
        kw["names"] = cols
    # --- oracle, from the property text
    sched = {}  # step -> list of row indices released at that step
    if not cont:
        for i in range(R):
            if 0 <= mc[i] < N:
                sched.setdefault(mc[i], []).append(i)
        upto_stop = [i for i in range(R) if 0 <= mc[i] <= N]
    else:
        filesteps = sorted(set(mc))
        tick = min(mc)  # the first file time in simulation order, wherever its row stands in the file
        upto_stop = []
        while tick < N:
            latest = max(s for s in filesteps if s <= tick)
            rowset = [i for i in range(R) if mc[i] == latest]
            if tick >= 0:
                sched.setdefault(tick, []).extend(rowset)
                upto_stop += rowset
            tick += cont
    expected_any = any(mult[i] > 0 for rows_ in sched.values() for i in rows_)  # a table that releases no particle in the window is refused (C20)
    try:
        PR = rel.ParticleReleaser(mods, str(path), **kw)
    except SystemExit:
        # refusing is right only when no particle is scheduled inside the window
        W.prove(not expected_any, "constructs", dict(mc=mc, mult=mult, note="SystemExit although rows are scheduled in the window"))
        return ("exit", tuple(mc))
    W.prove(True, "constructs")
    npid = 0
    for s in range(N):
        timer.update()
        n0 = len(S)
        PR.update()
        exp = [i for i in sched.get(s, []) for _ in range(mult[i])]
        got_n = len(S) - n0
        W.prove(got_n == len(exp), "count", dict(step=s, got=got_n, expected=len(exp), mc=mc, mult=mult))
        if got_n == len(exp) and exp:
            X, Y, Z, T, P = (W.tolist(S.variables[v])[n0:] for v in ("X", "Y", "Z", "tag", "pid"))
            conds = []
            for q, i in enumerate(exp):
                ex, ey = (((xs[i] - 4) / 2, (ys[i] - 60) * 4) if lonlat else (xs[i], ys[i]))
                conds += [W.eq(X[q], ex), W.eq(Y[q], ey), W.eq(Z[q], zs[i]), W.eq(T[q], tags[i]), W.eq(P[q], npid + q)]
            W.prove(W.all(conds), "lonlat" if lonlat else "values", dict(step=s, mc=mc, mult=mult))
            FA = W.tolist(S.variables["farm"])[n0:]
            RT = W.tolist(S.variables["release_time"])
            tconds = [len(RT) == n0 + got_n]
            for q, i in enumerate(exp):
                tconds.append(W.eq(FA[q], farms[i]))
                if n0 + q < len(RT):
                    tconds.append(W.eq(W.sec_of(RT[n0 + q]), START + sgn * s * DT))
            if typed:
                # declared types survive the release: times are times (not text), flags are booleans (not 0/1 integers)
                tconds.append(W.kind_of(S.variables["hatch"]) == "M")
                tconds.append(W.kind_of(S.variables["active"]) == "b")
                if W.kind_of(S.variables["hatch"]) == "M":
                    HA = W.tolist(S.variables["hatch"])[n0:]
                    tconds += [W.eq(W.sec_of(HA[q]), W.sec_of(hatch[i])) for q, i in enumerate(exp)]
                AC = W.tolist(S.variables["active"])[n0:]
                tconds += [W.eq(AC[q], bool(act[i])) if W.kind_of(S.variables["active"]) == "b" else False for q, i in enumerate(exp)]
            W.prove(W.all(tconds) if all(c is not False for c in tconds) else False, "typed-columns", dict(step=s, mc=mc, mult=mult, kinds=[W.kind_of(S.variables[v]) for v in ("farm", "release_time") + (("hatch", "active") if typed else ())]))
        npid += got_n
    if not cont:
        lo = sum(mult[i] for i in upto_stop if mc[i] < N)
        hi = sum(mult[i] for i in upto_stop)
        W.prove(W.any([W.eq(PR.total_particle_count, lo), W.eq(PR.total_particle_count, hi)]), "total", dict(mc=mc, mult=mult))
    return ("ok", tuple(mc), tuple(mult))


def subtick(W, p):
    """several release times inside one model step: every one of them is released in that step, none is postponed
    (continuous release with a frequency of dt/2, and a discrete table with two rows inside one step)"""
    tk, st, rel = W.load("ladim.timekeeper"), W.load("ladim.state"), W.load("ladim.release")
    N = 3
    tmp = W.scratch()
    path = tmp / "release.rls"
    m0, m1 = W.idx(W.int("mult0", 0, 2)), W.idx(W.int("mult1", 0, 2))
    x0, x1 = W.real("x0"), W.real("x1")
    timer = tk.TimeKeeper(start=W.dt(START), stop=W.dt(START + N * DT), dt=DT)
    S = st.State()
    cols = ["release_time", "X", "Y", "Z", "mult"]
    if p["mode"] == "continuous":
        # file times at steps 0 and 2 (both on the model grid and on the frequency grid), a tick every half step
        W.table(path, cols, [[W.dt(START), x0, 1, 5, m0], [W.dt(START + 2 * DT), x1, 2, 5, m1]])
        try:
            PR = rel.ParticleReleaser(dict(time=timer, grid=None, state=S), str(path), continuous=True, release_frequency=DT // 2)
        except SystemExit:
            # a table that releases no particle at all is refused (C20); any other refusal is wrong
            W.prove(m0 + m1 == 0, "constructs", dict(mode=p["mode"], mult=[m0, m1], note="SystemExit although particles are scheduled in the window"))
            return (p["mode"], m0, m1, "refused")
        W.prove(m0 + m1 > 0, "constructs", dict(mode=p["mode"], mult=[m0, m1], note="a table releasing nothing was accepted"))
        expect = {0: [(x0, m0), (x0, m0)], 1: [(x0, m0), (x0, m0)], 2: [(x1, m1), (x1, m1)]}
    else:
        # two rows inside step 1 (one on the step, one 250 s later), one row at step 2
        W.table(path, cols, [[W.dt(START + DT), x0, 1, 5, m0], [W.dt(START + DT + 250), x1, 2, 5, m1], [W.dt(START + 2 * DT), x0, 3, 5, 1]])
        PR = rel.ParticleReleaser(dict(time=timer, grid=None, state=S), str(path))
        expect = {0: [], 1: [(x0, m0), (x1, m1)], 2: [(x0, 1)]}
    for s_ in range(N):
        timer.update()
        n0 = len(S)
        PR.update()
        exp = [x for (x, m) in expect[s_] for _ in range(m)]
        got = W.tolist(S.X)[n0:]
        W.prove(len(got) == len(exp), "count", dict(step=s_, got=len(got), expected=len(exp), mode=p["mode"], mult=[m0, m1]))
        if len(got) == len(exp):
            W.prove(W.all([W.eq(a, b) for a, b in zip(got, exp)]), "values", dict(step=s_, mode=p["mode"]))
    return (p["mode"], m0, m1)


def signature(v, scen):
    p = scen["params"]
    if "mode" in p:
        return f"{v['clause'] if v['kind'] != 'crash' else 'crash:' + str(v['info'].get('exception'))}:subtick:{p['mode']}"
    if v["kind"] == "crash":
        return f"crash:{v['info'].get('exception')}:{'continuous' if p['cont'] else 'discrete'}"
    return f"{v['clause']}:{'rev' if p['rev'] else 'fwd'}:{'continuous' if p['cont'] else 'discrete'}"
