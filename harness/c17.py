"""C17 kernels never read outside the arrays — real ROMS z2s_kernel / trilinear / sample3D /
sample3DUV / Forcing.velocity driven by the real Tracker (EF/RK2/RK4, RKstep, clip) on a real
ROMS Grid; every symbolic index is an obligation 0 <= idx < len; stage velocities are arbitrary."""
from harness import romsfile
from harness.common import T0
from harness.trkcommon import NSTAGES, Timer, in_valid

PROPERTY = "C17"
CLAUSES = {
    "no-crash": "no IndexError (or any other exception) for any position the model can produce",
    "index-in-range": "lemma 2: for a particle anywhere in the valid region at any depth and a query position anywhere in that box, every index into the field, level and mask arrays satisfies 0 <= idx < len (negative wrap-around counts as outside)",
    "stage-positions-clipped": "lemma 1: the first stage samples at the particle position, every later RK stage inside [xmin + 0.01, xmax - 0.01] x [ymin + 0.01, ymax - 0.01], whatever the velocities",
}
BOUNDS = {
    "quick": "(query lemma also for a time-reversed run on the offset subgrid) global 6x6 grid, subgrids {full, [1,5,2,5]}, N in {2, 3} levels, 1 particle anywhere in the valid region (also after another particle was removed between forcing and tracking), any depth (above surface .. below bottom), stage velocities any real (any magnitude), dt = 600 s, EF/RK2/RK4",
    "thorough": "7x6 grid, 3 subgrids, N 2..4, plus scalar (nearest) sampling",
}
ASSUMES = ["composition of the two lemmas (stage positions are in the box; any position in the box is safe to sample) is an argument, not a machine-checked step", "field values are irrelevant for index arithmetic: the forcing file holds zeros and the velocities handed to the tracker are fresh symbols of any magnitude",
           "numba compiles these kernels with Python index semantics but without bounds checks (that is why an out-of-range index is silent in production)"]
OUTSIDE = "N = 1 (recorded under C12); numba code generation itself"
DT = 600


def scenarios(tier):
    q = tier == "quick"
    L, M = (6, 6) if q else (7, 6)
    subs = [None, [1, 5, 2, 5]] if q else [None, [2, 6, 1, 5], [1, 5, 1, 4]]
    out = []
    for adv in ("EF", "RK2", "RK4"):
        for sub in subs:
            out.append(dict(name=f"stages-{adv}-sub{'full' if sub is None else '_'.join(map(str, sub))}", fn="stages", params=dict(adv=adv, sub=sub, L=L, M=M), cost=5))
    for sub in subs:
        for N in ((2, 3) if q else (2, 3, 4)):
            for mode in ("own", "query", "shrunk"):
                out.append(dict(name=f"kernel-{mode}-sub{'full' if sub is None else '_'.join(map(str, sub))}-N{N}", fn="kernel", params=dict(sub=sub, N=N, L=L, M=M, mode=mode), cost=20))
            if sub is not None and N == 2:
                # time-reversed run (the sign flip has a code path of its own) on a subgrid with different offsets
                out.append(dict(name=f"kernel-query-rev-sub{'_'.join(map(str, sub))}-N{N}", fn="kernel", params=dict(sub=sub, N=N, L=L, M=M, mode="query", rev=True), cost=20))
    return out


def _setup(W, p, N):
    L, M = p["L"], p["M"]
    roms, tk, st = W.load("ladim.ROMS"), W.load("ladim.timekeeper"), W.load("ladim.state")
    tmp = W.scratch()
    ones = [[1] * L for _ in range(M)]
    gs = romsfile.grid_vars(L, M, N, h=[[100] * L for _ in range(M)], mask=ones, pm=[[W.frac(1, 800)] * L for _ in range(M)], pn=[[W.frac(1, 800)] * L for _ in range(M)])
    zero_u = [[[[0] * (L - 1) for _ in range(M)] for _ in range(N)] for _ in range(2)]
    zero_v = [[[[0] * L for _ in range(M - 1)] for _ in range(N)] for _ in range(2)]
    zero_t = [[[[0] * L for _ in range(M)] for _ in range(N)] for _ in range(2)]
    rev = bool(p.get("rev"))
    t_first = T0 - 2 * DT if rev else T0
    fs = romsfile.forcing_vars([t_first - romsfile.REFSEC, t_first - romsfile.REFSEC + 2 * DT], zero_u, zero_v, extra=dict(temp=zero_t))
    romsfile.write(W, tmp / "ocean.nc", gs, fs)
    timer = tk.TimeKeeper(start=W.dt(T0), stop=W.dt(T0 - 2 * DT if rev else T0 + 2 * DT), dt=DT, time_reversal=rev)
    grid = roms.Grid(filename=str(tmp / "ocean.nc"), subgrid=p["sub"])
    S = st.State(instance_variables=dict(temp=float), default_values=dict(temp=0))
    return roms, timer, grid, S, tmp


def stages(W, p):
    """lemma 1: whatever the stage velocities, every RK stage samples inside the clip box"""
    adv = p["adv"]
    trk = W.load("ladim.tracker")
    roms, timer, grid, S, tmp = _setup(W, p, 2)
    x, y = W.real("x"), W.real("y")
    W.assume(in_valid(W, grid, x, y), "start in the valid region")
    S.append(X=x, Y=y, Z=5)
    ns = NSTAGES[adv]
    U = {(k, c): W.real(f"{c}{k}") for k in range(ns) for c in "uv"}
    from harness.trkcommon import StageForce

    F = StageForce(W, lambda k, c: [U[(k, c)]])
    T = trk.Tracker(advection=adv, modules=dict(state=S, grid=grid, forcing=F, time=Timer(DT)))
    T.update()
    lo_x, hi_x = grid.xmin + W.frac(1, 100), grid.xmax - W.frac(1, 100)
    lo_y, hi_y = grid.ymin + W.frac(1, 100), grid.ymax - W.frac(1, 100)
    conds = [W.eq(F.calls[0][0][0], x), W.eq(F.calls[0][1][0], y)]
    for (xs, ys, _) in F.calls[1:]:
        conds += [W.le(lo_x, xs[0]), W.le(xs[0], hi_x), W.le(lo_y, ys[0]), W.le(ys[0], hi_y)]
    W.prove(W.all(conds), "stage-positions-clipped", dict(scheme=adv))
    return (adv, len(F.calls))


def kernel(W, p):
    """lemma 2: for a particle anywhere in the valid region at any depth, level lookup and scalar sampling stay in range,
    and velocity sampling stays in range for every query position in the clip box (where lemma 1 puts the stages)"""
    N = p["N"]
    roms, timer, grid, S, tmp = _setup(W, p, N)
    x, y = W.real("x"), W.real("y")
    W.assume(in_valid(W, grid, x, y), "start in the valid region")
    if p["mode"] == "query":
        cx, cy = grid.i0 + 1, grid.j0 + 1
        W.assume(W.all([W.lt(cx - W.frac(2, 5), x), W.lt(x, cx + W.frac(2, 5)), W.lt(cy - W.frac(2, 5), y), W.lt(y, cy + W.frac(2, 5))]), "query scenarios: the particle's own cell is pinned (K, A stay symbolic through the depth)")
    z = W.real("z", -50, 500)
    if p["mode"] == "shrunk":
        # another particle goes first and is removed between Forcing.update() and the tracker's velocity() calls
        # (the sparse writer compactifies in between): the level indices are recomputed for the survivors
        S.append(X=grid.i0 + 1 + W.frac(1, 4), Y=grid.j0 + 1 + W.frac(1, 4), Z=W.real("z_gone", -50, 500))
    S.append(X=x, Y=y, Z=z)
    mods = dict(time=timer, grid=grid, state=S)
    F = roms.Forcing(mods, str(tmp / "ocean.nc"), extra_forcing=["temp"])
    timer.update()
    F.update()  # z2s + nearest + bilinear sampling at the particle position
    k = W.idx(W.tolist(F.K)[-1])
    W.prove(1 <= k <= N - 1, "index-in-range", dict(K=k, N=N))
    if p["mode"] == "shrunk":
        S.alive[0] = False
        S.compactify()
        for frac in (0, W.frac(1, 2)):
            F.velocity(S.X, S.Y, S.Z, fractional_step=frac)
        k2 = W.idx(W.tolist(F.K)[0])
        W.prove(len(F.K) == 1 and 1 <= k2 <= N - 1, "index-in-range", dict(K=k2, N=N, note="after the state shrank"))
        return ("shrunk", N, k2)
    if p["mode"] == "own":
        return ("own", N, k)
    xq = W.real("xq", grid.xmin + W.frac(1, 100), grid.xmax - W.frac(1, 100))
    yq = W.real("yq", grid.ymin + W.frac(1, 100), grid.ymax - W.frac(1, 100))
    for frac in (0, W.frac(1, 2)):
        F.velocity(W.arr([xq], "f"), W.arr([yq], "f"), S.Z, fractional_step=frac)
    return ("kernel", N, k)


def signature(v, scen):
    tag = scen["params"].get("adv") or scen["params"].get("mode")
    if v["kind"] == "crash":
        return f"crash:{v['info'].get('exception')}:{tag}"
    return f"{v['clause']}:{tag}"
