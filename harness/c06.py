"""C06 output records are faithful snapshots — the real Model/Output/State/TimeKeeper run over a
symbolic release + death history; the files are read back as doc/source/output.rst prescribes and
compared by the solver with a closed-form ghost of the state."""
import math
from harness.common import T0, base_config, ovar, run_main

PROPERTY = "C06"
CLAUSES = {
    "no-crash": "the run ends normally for every history (also when the state is empty at a file end)",
    "counts": "particle_count[n] is the number of living particles at record n and the counts sum to the instance dimension",
    "members": "record n holds exactly the living particles, pid strictly increasing, pid[k] >= k",
    "values": "every instance variable of record n equals the model state at that time (position, age, forcing variable, lon/lat)",
    "time-coordinate": "time[n] == model time of record n - reference time",
    "particle-vars": "particle variables hold the value of particle pid at index pid for every particle released so far (time-typed ones relative to the reference time)",
    "dense-fill": "dense layout: [record, pid] holds the value while the particle lives and fill otherwise",
}
BOUNDS = {
    "quick": "Nsteps 3, record every step, 2 release rows at any steps with mult 0..2 (<=3 particles), each particle dies at any step or never (IBM), numrec 0 or 2, sparse and dense, three time-reversed scenarios; positions, velocity, particle values, reference time symbolic; dense files: the declared _FillValue of every floating point variable",
    "thorough": "Nsteps 4, 3 rows, <=4 particles, period 1 and 2",
}
ASSUMES = ["values are stored exactly (no f4/i4 narrowing)", "constant symbolic velocity, EF, interior positions (the tracker itself is C01/C09)"]
OUTSIDE = "NetCDF library internals; narrowing to the declared storage type"
DT = 600


def scenarios(tier):
    q = tier == "quick"
    N = 3 if q else 4
    R = 2 if q else 3
    out = []
    import itertools

    for layout in ("sparse", "dense"):
        for numrec in (0, 2):
            for per in ((1,) if q else (1, 2)):
                for rs in itertools.combinations_with_replacement(range(N), R):
                    if q and layout == "dense" and numrec == 2 and rs[0] != 0:
                        continue
                    out.append(dict(name=f"{layout}-nr{numrec}-p{per}-rel{''.join(map(str, rs))}", fn="run",
                                    params=dict(layout=layout, numrec=numrec, per=per, N=N, rs=list(rs), maxp=3 if q else 4), cost=20))
    # time-reversed runs (negative output period inside the writer): single file and multi-file
    out.append(dict(name="sparse-nr0-p1-rel01-rev", fn="run", params=dict(layout="sparse", numrec=0, per=1, N=N, rs=[0, 1], maxp=3, rev=True), cost=20))
    out.append(dict(name="sparse-nr2-p1-rel01-rev", fn="run", params=dict(layout="sparse", numrec=2, per=1, N=N, rs=[0, 1], maxp=3, rev=True), cost=20))
    out.append(dict(name="dense-nr2-p2-rel01-rev", fn="run", params=dict(layout="dense", numrec=2, per=2, N=4, rs=[0, 1], maxp=3, rev=True), cost=30))
    out.append(dict(name="sparse-nr0-p1-rel01-hatch", fn="run", params=dict(layout="sparse", numrec=0, per=1, N=N, rs=[0, 1], maxp=3, hatch=True), cost=20))
    out.append(dict(name="dense-nr2-p1-rel01-hatch", fn="run", params=dict(layout="dense", numrec=2, per=1, N=N, rs=[0, 1], maxp=3, hatch=True), cost=20))
    out.append(dict(name="dense-after-warm-start", fn="warm_dense", params={}, cost=20))
    if q:
        # one scenario with records every second step (record number != step number)
        out.append(dict(name="sparse-nr0-p2-rel01", fn="run", params=dict(layout="sparse", numrec=0, per=2, N=N, rs=[0, 1], maxp=3), cost=20))
        out.append(dict(name="dense-nr2-p2-rel01", fn="run", params=dict(layout="dense", numrec=2, per=2, N=4, rs=[0, 1], maxp=3), cost=30))
    return out


def run(W, p):
    N, rs, layout, per = p["N"], p["rs"], p["layout"], p["per"]
    R = len(rs)
    mult = [W.idx(W.int(f"mult{i}", 0, 2)) for i in range(R)]
    total = sum(mult)
    if total > p["maxp"]:
        W.assume(False, "bounded number of particles")
    if total == 0:
        W.assume(False, "a table that releases no particle is refused at start-up (decided by C20); empty records are still reached with mult0 = 0 < mult1")
    x = [W.real(f"x{i}", 6, 14) for i in range(R)]
    w0 = [W.real(f"w{i}") for i in range(R)]
    u = W.real("u", -W.frac(1, 100), W.frac(1, 100))
    temp = W.real("temp")
    ref = W.int("ref", T0 - 10 ** 6, T0 + 10 ** 6)
    # who is who
    owner = [i for i in range(R) for _ in range(mult[i])]  # pid -> row
    # death: particle pid is killed by the IBM at step kd[pid] (after the move of that step), N = never
    kd = []
    for pid in range(total):
        k = W.idx(W.int(f"kill{pid}", rs[owner[pid]], N))
        kd.append(k)
    kill = {}
    for pid, k in enumerate(kd):
        if k < N:
            kill.setdefault(k, {})[pid] = True
    tmp = W.scratch()
    rev = bool(p.get("rev"))
    sgn = -1 if rev else 1
    rows = [[W.dt(T0 + sgn * rs[i] * DT), x[i], 10, 5, mult[i], w0[i]] for i in range(R)]
    cols = ["release_time", "X", "Y", "Z", "mult", "w0"]
    hatch = bool(p.get("hatch"))
    if hatch:
        # a time-typed INSTANCE variable taken from the release table
        cols = cols + ["hatch"]
        rows = [r + [W.dt(T0 - 86400 * (i + 1))] for i, r in enumerate(rows)]
    W.table(tmp / "r.rls", cols, rows)
    ivars = dict(pid=ovar("i4"), X=ovar("f8"), age=ovar("f8"), temp=ovar("f8"), lon=ovar("f8"), lat=ovar("f8"))
    if hatch:
        ivars["hatch"] = ovar("f8", units="hours since reference_time")
    pvars = dict(w0=ovar("f8"), release_time=ovar("f8", units="seconds since reference_time"))
    cfg = base_config(
        W, start=T0, stop=T0 + sgn * N * DT, dt=DT, rev=rev, reference=ref, release_file=tmp / "r.rls", u=u, temp=temp,
        state=dict(instance_variables=dict(age=float, temp=float, lon=float, lat=float, **(dict(hatch="time") if hatch else {})), particle_variables=dict(w0=float, release_time="time"), default_values=dict(age=0, temp=0, lon=0, lat=0)),
        ibm=dict(kill=kill, age=True),
        output=dict(filename=str(tmp / "out.nc"), output_period=per * DT, instance_variables=ivars, particle_variables=pvars, layout=layout, numrec=p["numrec"]),
    )
    run_main(W, cfg)
    # ---------------- ghost: closed form of the state at every record
    rec_steps = [s for s in range(N) if s % per == 0]

    def alive_at(pid, s):
        return rs[owner[pid]] <= s and kd[pid] >= s  # killed at step k (after output of step k) -> absent from step k+1 on

    def val(pid, s, var):
        i = owner[pid]
        if var == "X":
            return x[i] + u * W.frac(DT, 100) * (s - rs[i])
        if var == "age":
            return DT * (s - rs[i])
        if var == "temp":
            return temp
        if var == "lon":
            return 4 + 2 * val(pid, s, "X")
        if var == "lat":
            return 60 + W.frac(10, 4)
        if var == "pid":
            return pid
        if var == "hatch":  # hours since the reference time
            return W.frac(1, 3600) * (T0 - 86400 * (i + 1) - ref)
        raise KeyError(var)

    numrec = p["numrec"]
    nrec = len(rec_steps)
    if numrec == 0:
        files = [("out.nc", list(range(nrec)))]
    else:
        files = [(f"out_{k:03d}.nc", list(range(k * numrec, min((k + 1) * numrec, nrec)))) for k in range(-(-nrec // numrec))]
    for fname, recs in files:
        if not W.nc_exists(tmp / fname):
            W.prove(False, "counts", dict(missing=fname))
            continue
        d = W.nc_read(tmp / fname)
        V = d["vars"]
        # time coordinate
        tconds = [len(V["time"]) == len(recs)]
        for k, r in enumerate(recs):
            tconds.append(False if k >= len(V["time"]) or W.is_fill(V["time"][k]) else W.eq(V["time"][k], T0 + sgn * rec_steps[r] * DT - ref))
        # the units attribute must name the reference time the values are relative to
        tconds.append(_units_ref(d["atts"]["time"].get("units", ""), W) == W.idx(ref) if not W.symbolic else _units_ok(W, d["atts"]["time"].get("units", ""), ref))
        W.prove(W.all(tconds), "time-coordinate", dict(file=fname, units=d["atts"]["time"].get("units")))
        if layout == "sparse":
            pc = V["particle_count"]
            exp_counts = [sum(1 for pid in range(total) if alive_at(pid, rec_steps[r])) for r in recs]
            got_counts = [None if W.is_fill(c) else int(c) for c in pc]
            W.prove(got_counts == exp_counts and sum(exp_counts) == d["dims"]["particle_instance"], "counts",
                    dict(file=fname, got=got_counts, expected=exp_counts, instances=d["dims"]["particle_instance"], kd=kd, rs=rs, mult=mult))
            if got_counts != exp_counts:
                continue
            # retrieval exactly as documented: cumulative particle_count
            for k, r in enumerate(recs):
                s = rec_steps[r]
                start = sum(got_counts[:k])
                count = got_counts[k]
                members = [pid for pid in range(total) if alive_at(pid, s)]
                pids = V["pid"][start:start + count]
                W.prove(W.all([W.eq(a, b) for a, b in zip(pids, members)]), "members", dict(file=fname, record=k, step=s, expected=members, kd=kd))
                conds = []
                for var in ("X", "age", "temp", "lon", "lat") + (("hatch",) if hatch else ()):
                    got = V[var][start:start + count]
                    if len(got) != count or any(W.is_fill(g) for g in got):
                        conds.append(False)
                        continue
                    conds += [W.eq(g, val(pid, s, var)) for g, pid in zip(got, members)]
                W.prove(W.all(conds), "values", dict(file=fname, record=k, step=s, kd=kd, rs=rs, mult=mult))
        else:
            # dense: [record, pid] = value while alive, fill otherwise (pid itself is not stored in this layout)
            # the fill of a floating point variable is NaN, declared in the file (doc/source/output.rst): a reader other than
            # netCDF4-python does not know the library default
            for var in ("X", "age", "temp", "lon", "lat") + (("hatch",) if hatch else ()):
                fv = d["atts"].get(var, {}).get("_FillValue")
                W.prove(_is_nan(W, fv), "dense-fill", dict(file=fname, variable=var, declared_fill=repr(fv), note="undefined cells are not declared NaN"))
            for k, r in enumerate(recs):
                s = rec_steps[r]
                conds, fills = [], True
                for var in ("X", "age", "temp", "lon", "lat") + (("hatch",) if hatch else ()):
                    row = V[var][k] if k < len(V[var]) else []
                    for pid in range(total):
                        cell = row[pid] if pid < len(row) else "FILL"
                        if alive_at(pid, s):
                            conds.append(False if W.is_fill(cell) or cell == "FILL" else W.eq(cell, val(pid, s, var)))
                        elif not (W.is_fill(cell) or cell == "FILL"):
                            fills = False
                W.prove(W.all(conds), "values", dict(file=fname, record=k, step=s, kd=kd, rs=rs, mult=mult))
                W.prove(fills, "dense-fill", dict(file=fname, record=k, step=s, kd=kd, rs=rs, mult=mult))
        # particle variables: everything released up to the last record of this file
        s_last = rec_steps[recs[-1]]
        released = [pid for pid in range(total) if rs[owner[pid]] <= s_last]
        conds = []
        for pid in released:
            for var, exp in (("w0", w0[owner[pid]]), ("release_time", T0 + sgn * rs[owner[pid]] * DT - ref)):
                arr = V.get(var, [])
                if pid >= len(arr) or W.is_fill(arr[pid]):
                    conds.append(False)
                else:
                    conds.append(W.eq(arr[pid], exp))
        ru = d["atts"].get("release_time", {}).get("units", "")
        conds.append((_units_ref(ru, W) == W.idx(ref)) if not W.symbolic else _units_ok(W, ru, ref))
        W.prove(W.all(conds) if conds else True, "particle-vars", dict(file=fname, released=released, kd=kd, rs=rs, mult=mult, lens={v: len(V.get(v, [])) for v in ("w0", "release_time")}))
    return (tuple(mult), tuple(kd))


def _is_nan(W, v):
    if v is None:
        return False
    if W.symbolic:
        return v is W.np.NAN
    try:
        return math.isnan(float(v))
    except (TypeError, ValueError):
        return False


def warm_dense(W, p):
    """a run warm-started from a (sparse) file and written in the dense layout: column = identifier also when the state no
    longer starts at pid 0 (the restart file holds only the survivors)"""
    N, rs = 4, [0, 1]
    R = len(rs)
    mult = [W.idx(W.int(f"mult{i}", 0, 2)) for i in range(R)]
    total = sum(mult)
    if total > 3 or total == 0:
        W.assume(False, "1..3 particles")
    x = [W.real(f"x{i}", 6, 14) for i in range(R)]
    u = W.real("u", -W.frac(1, 100), W.frac(1, 100))
    owner = [i for i in range(R) for _ in range(mult[i])]
    kd = [W.idx(W.int(f"kill{pid}", rs[owner[pid]], N)) for pid in range(total)]
    kill = {}
    for pid, k in enumerate(kd):
        if k < N:
            kill.setdefault(k, {})[pid] = True
    tmp = W.scratch()
    (tmp / "A").mkdir()
    (tmp / "B").mkdir()
    W.table(tmp / "r.rls", ["release_time", "X", "Y", "Z", "mult"], [[W.dt(T0 + rs[i] * DT), x[i], 10, 5, mult[i]] for i in range(R)])
    conf = W.load("ladim.configure")

    def config(sub, layout, warm=None, first=None):
        cfg = base_config(W, start=T0, stop=T0 + N * DT, dt=DT, release_file=tmp / "r.rls", u=u,
                          state=dict(instance_variables=dict(age=float), default_values=dict(age=0)),
                          ibm=dict(kill=kill, age=True, kill_t0=W.dt(T0)),
                          output=dict(filename=str(sub / (first or "out.nc")), output_period=DT, layout=layout, numrec=2,
                                      instance_variables=dict(pid=ovar("i4"), X=ovar("f8"), Y=ovar("f8"), Z=ovar("f8"), age=ovar("f8"))),
                          warm_start=(dict(filename=str(warm), variables=["age"]) if warm else {}))
        cfg["forcing"]["filename"] = str(tmp / "unused-forcing.nc")
        cfg["grid"]["filename"] = str(tmp / "unused-grid.nc")
        conf.configure_v2(cfg)
        return cfg

    run_main(W, config(tmp / "A", "sparse"))
    run_main(W, config(tmp / "B", "dense", warm=tmp / "A" / "out_000.nc", first="out_001.nc"))

    def alive_at(pid, s_):
        return rs[owner[pid]] <= s_ and kd[pid] >= s_

    if not W.nc_exists(tmp / "B" / "out_001.nc"):
        W.prove(False, "dense-fill", dict(missing="B/out_001.nc"))
        return ("nofile",)
    d = W.nc_read(tmp / "B" / "out_001.nc")
    V = d["vars"]
    conds, fills = [], True
    info = dict(mult=mult, kd=kd, note="dense file of a run warm-started from the sparse file out_000.nc (records of steps 2, 3)")
    for k, s_ in enumerate((2, 3)):
        for var in ("X", "age"):
            row = V[var][k] if k < len(V[var]) else []
            for pid in range(total):
                cell = row[pid] if pid < len(row) else "FILL"
                if alive_at(pid, s_):
                    exp = x[owner[pid]] + u * W.frac(DT, 100) * (s_ - rs[owner[pid]]) if var == "X" else DT * (s_ - rs[owner[pid]])
                    conds.append(False if W.is_fill(cell) or cell == "FILL" else W.eq(cell, exp))
                elif not (W.is_fill(cell) or cell == "FILL"):
                    fills = False
    W.prove(W.all(conds) if all(c is not False for c in conds) else False, "values", info)
    W.prove(fills, "dense-fill", info)
    return (tuple(mult), tuple(kd))


def _units_ref(units, W):
    import numpy as np

    unit, _, r = units.partition(" since ")
    if unit != "seconds":
        return None
    return int((np.datetime64(r.strip(), "s") - np.datetime64(0, "s")) / np.timedelta64(1, "s"))


def _units_ok(W, units, ref):
    unit, _, r = units.partition(" since ")
    if unit != "seconds":
        return False
    return W.eq(W.sec_of(W.np.DT(r.strip())), ref)


def signature(v, scen):
    p = scen["params"]
    info = v.get("info") or {}
    if v["kind"] == "crash":
        return f"crash:{info.get('exception')}:{p.get('layout', 'dense-after-warm-start')}"
    return f"{v['clause']}:{p.get('layout', 'dense-after-warm-start')}"
