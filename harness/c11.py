"""C11 random-walk diffusion: variance and bias — real Tracker.__init__/diffuse/diffuse_vert/update
with the random generator replaced by fresh real variables (one per draw)."""
import math

from harness.trkcommon import Timer

PROPERTY = "C11"
CLAUSES = {
    "no-crash": "the step raises no exception",
    "horizontal-scale": "dX_i * dx_i = k * xi and dY_i * dx_i = k * xi' with k >= 0, k^2 = 2 D dt (no constant term: zero mean), for all D, dt, dx, draws",
    "vertical-scale": "dZ_i = kz * xi'' with kz >= 0, kz^2 = 2 Dz dt",
    "independent-draws": "every displacement component of every particle and step uses its own draw, each draw is used once",
    "deterministic-when-off": "with D = 0 and Dz = 0 the generator is never called and positions are unchanged",
}
BOUNDS = {"quick": "1-3 particles, two consecutive steps, D, Dz, dt, dx_i, draws: any positive reals / any reals",
          "thorough": "4 particles, three steps"}
ASSUMES = ["numpy's Generator.normal returns i.i.d. N(0,1) draws (contract of the stub): mean 0 and variance 2 D t then follow from the proven linear form",
           "no boundary/land interaction (C09) and no reflection (C15): open water, deep column"]
OUTSIDE = "statistical quality of the generator; sample statistics of finite clouds"


def scenarios(tier):
    q = tier == "quick"
    out = []
    for npart in ((1, 3) if q else (1, 2, 4)):
        out.append(dict(name=f"horizontal-p{npart}", fn="horizontal", params=dict(npart=npart, steps=2 if q else 3), cost=5))
    out.append(dict(name="vertical", fn="vertical", params=dict(npart=2), cost=3))
    out.append(dict(name="off", fn="off", params=dict(npart=2), cost=1))
    return out


def _sqrt(W, v):
    return W.core.sym_sqrt(v) if W.symbolic else math.sqrt(v)


def _mk(W, npart, D, Dz, dt, dx, z0=None, adv=""):
    trk, st = W.load("ladim.tracker"), W.load("ladim.state")

    class Grid:
        xmin, xmax, ymin, ymax = 0, 1000000, 0, 1000000

        def metric(self, X, Y):
            return W.arr(list(dx), "f"), W.arr(list(dx), "f")

        def ingrid(self, X, Y):
            return W.arr([True] * len(X), "b")

        def atsea(self, X, Y):
            return W.arr([True] * len(X), "b")

        def depth(self, X, Y):
            return W.arr([10 ** 9] * len(X), "f")

    class Force:
        variables = {}

        def velocity(self, *a, **k):
            raise AssertionError("no advection requested")

    S = st.State()
    x = [W.real(f"x{n}", 1000, 2000) for n in range(npart)]
    y = [W.real(f"y{n}", 1000, 2000) for n in range(npart)]
    z = [z0 if z0 is not None else 5] * npart
    S.append(X=W.arr(x, "f"), Y=W.arr(y, "f"), Z=W.arr(z, "f"))
    T = trk.Tracker(advection=adv, diffusion=D, vertdiff=Dz, modules=dict(state=S, grid=Grid(), forcing=Force(), time=Timer(dt)))
    W.patch_rng(T)
    return S, T, x, y


def horizontal(W, p):
    npart = p["npart"]
    D = W.real("D", 0, 10 ** 4, lo_strict=True)
    dt = W.real("dt", 1, 10 ** 5)
    dx = [W.real(f"dx{n}", 1, 10 ** 4) for n in range(npart)]
    S, T, x, y = _mk(W, npart, D, 0, dt, dx)
    k = _sqrt(W, 2 * D * dt)
    px, py = list(x), list(y)
    for s in range(p["steps"]):
        T.update()
        X1, Y1 = W.tolist(S.X), W.tolist(S.Y)
        calls = W.rng_calls()
        W.prove(calls == [(c, npart) for c in range(2 * (s + 1))], "independent-draws", dict(step=s, calls=calls))
        if calls != [(c, npart) for c in range(2 * (s + 1))]:
            return ("calls",)
        conds = []
        for n in range(npart):
            conds.append(W.eq((X1[n] - px[n]) * dx[n], k * W.xi(2 * s, n)))
            conds.append(W.eq((Y1[n] - py[n]) * dx[n], k * W.xi(2 * s + 1, n)))
        W.prove(W.all(conds), "horizontal-scale", dict(step=s))
        px, py = X1, Y1
    return ("horizontal", npart)


def vertical(W, p):
    npart = p["npart"]
    Dz = W.real("Dz", 0, 10, lo_strict=True)
    dt = W.real("dt", 1, 10 ** 5)
    S, T, x, y = _mk(W, npart, 0, Dz, dt, [100] * npart)
    kz = _sqrt(W, 2 * Dz * dt)
    Wv = T.diffuse_vert(num_particles=npart)
    calls = W.rng_calls()
    W.prove(calls == [(0, npart)], "independent-draws", dict(calls=calls))
    got = W.tolist(Wv)
    W.prove(W.all([W.eq(got[n] * dt, kz * W.xi(0, n)) for n in range(npart)]), "vertical-scale")
    return ("vertical",)


def off(W, p):
    npart = p["npart"]
    dt = W.real("dt", 1, 10 ** 5)
    S, T, x, y = _mk(W, npart, 0, 0, dt, [W.real(f"dx{n}", 1, 10 ** 4) for n in range(npart)])
    T.update()
    T.update()
    W.prove(W.rng_calls() == [], "deterministic-when-off", dict(calls=W.rng_calls()))
    X1, Y1, Z1 = W.tolist(S.X), W.tolist(S.Y), W.tolist(S.Z)
    W.prove(W.all([W.eq(a, b) for a, b in zip(X1 + Y1, x + y)] + [W.eq(zz, 5) for zz in Z1]), "deterministic-when-off")
    return ("off",)
