"""C11 random-walk diffusion: variance and bias — real Tracker.__init__/diffuse/diffuse_vert/update
with the random generator replaced by fresh real variables (one per draw)."""
import math

from harness.trkcommon import Timer

PROPERTY = "C11"
CLAUSES = {
    "no-crash": "the step raises no exception",
    "horizontal-scale": "dX_i * dx_i = k * xi and dY_i * dx_i = k * xi' with k >= 0, k^2 = 2 D dt (no constant term: zero mean), for all D, dt, dx, draws",
    "vertical-scale": "dZ_i = kz * xi'' with kz >= 0, kz^2 = 2 Dz dt",
    "independent-draws": "every displacement component of every particle, direction and step is carried by a draw of its own (no draw serves two components; however the generator is called)",
    "deterministic-when-off": "with D = 0 and Dz = 0 the generator is never called and positions are unchanged",
}
BOUNDS = {"quick": "(incl. vertical diffusion combined with vertical advection, symbolic w) 1-3 particles, two consecutive steps, D, Dz, dt, dx_i, draws: any positive reals / any reals",
          "thorough": "4 particles, three steps"}
ASSUMES = ["numpy's Generator.normal returns i.i.d. N(0,1) draws (contract of the stub): mean 0 and variance 2 D t then follow from the proven linear form",
           "no boundary/land interaction (C09) and no reflection (C15): open water, deep column"]
OUTSIDE = "statistical quality of the generator; sample statistics of finite clouds"


def scenarios(tier):
    q = tier == "quick"
    out = []
    for npart in ((1, 3) if q else (1, 2, 4)):
        out.append(dict(name=f"horizontal-p{npart}", fn="horizontal", params=dict(npart=npart, steps=2 if q else 3), cost=5))
    out.append(dict(name="vertical", fn="vertical", params=dict(npart=2), cost=3))
    out.append(dict(name="both", fn="both", params=dict(npart=2), cost=3))
    out.append(dict(name="vertical-with-advection", fn="vertadv", params=dict(npart=2), cost=3))
    out.append(dict(name="off", fn="off", params=dict(npart=2), cost=1))
    return out


def _sqrt(W, v):
    return W.core.sym_sqrt(v) if W.symbolic else math.sqrt(v)


def _mk(W, npart, D, Dz, dt, dx, z0=None, adv="", dy=None, tag="", wvel=None):
    dy = dx if dy is None else dy
    trk, st = W.load("ladim.tracker"), W.load("ladim.state")

    class Grid:
        xmin, xmax, ymin, ymax = 0, 1000000, 0, 1000000

        def metric(self, X, Y):
            return W.arr(list(dx), "f"), W.arr(list(dy), "f")

        def ingrid(self, X, Y):
            return W.arr([True] * len(X), "b")

        def atsea(self, X, Y):
            return W.arr([True] * len(X), "b")

        def depth(self, X, Y):
            return W.arr([10 ** 9] * len(X), "f")

    class Force:
        variables = {} if wvel is None else dict(w=W.arr(list(wvel), "f"))

        def velocity(self, *a, **k):
            raise AssertionError("no advection requested")

    S = st.State()
    x = [W.real(f"{tag}x{n}", 1000, 2000) for n in range(npart)]
    y = [W.real(f"{tag}y{n}", 1000, 2000) for n in range(npart)]
    z = [z0 if z0 is not None else 5] * npart
    S.append(X=W.arr(x, "f"), Y=W.arr(y, "f"), Z=W.arr(z, "f"))
    T = trk.Tracker(advection=adv, diffusion=D, vertdiff=Dz, modules=dict(state=S, grid=Grid(), forcing=Force(), time=Timer(dt)), **(dict(vertical_advection=True) if wvel is not None else {}))
    W.patch_rng(T)
    return S, T, x, y


def _draws(W):
    out = []
    for (c, n) in W.rng_calls():
        for i in range(n):
            if (c, i) not in out:  # a re-seeded generator hands out the same draw again
                out.append((c, i))
    return out


def _generic(W):
    """draws are generic: pairwise different and non-zero (a null set is excluded; keeps counterexample models unambiguous)"""
    ds = _draws(W)
    conds = [W.not_(W.eq(W.xi(*d), 0)) for d in ds]
    for i in range(len(ds)):
        for j in range(i + 1, len(ds)):
            conds.append(W.not_(W.eq(W.xi(*ds[i]), W.xi(*ds[j]))))
            conds.append(W.not_(W.eq(W.xi(*ds[i]), -W.xi(*ds[j]))))
    W.assume(W.all(conds), "normal draws are generic: non-zero and pairwise different in absolute value")


def _match(W, comps, k, used, clause, info):
    """every displacement component must equal k * (one draw of its own): find that draw by asking the solver"""
    assign = []
    for name, val in comps:
        hit = None
        for d in _draws(W):
            if d in used:
                continue
            ok = W.E.decide(W.core.z3.Not(W.eq(val, k * W.xi(*d)).e))[0] == "unsat" if W.symbolic else W.truth(W.eq(val, k * W.xi(*d)))
            if ok:
                hit = d
                break
        if hit is None:
            # no unused draw carries this component: either it is no scaled draw at all, or it shares a draw with another component
            any_draw = W.any([W.eq(val, k * W.xi(*d)) for d in _draws(W)])
            W.prove(any_draw, clause, dict(info, component=name, note="is not k * xi for any draw"))
            shared = [d for d in used if (W.E.decide(W.core.z3.Not(W.eq(val, k * W.xi(*d)).e))[0] == "unsat" if W.symbolic else W.truth(W.eq(val, k * W.xi(*d))))]
            W.prove(not shared, "independent-draws", dict(info, component=name, shares_draw=shared[:2]))
        else:
            used.add(hit)
        assign.append((name, hit))
    return assign


def horizontal(W, p):
    npart = p["npart"]
    D = W.real("D", 0, 10 ** 4, lo_strict=True)
    dt = W.real("dt", 1, 10 ** 5)
    dx = [W.real(f"dx{n}", 1, 10 ** 4) for n in range(npart)]
    dy = [W.real(f"dy{n}", 1, 10 ** 4) for n in range(npart)]
    S, T, x, y = _mk(W, npart, D, 0, dt, dx, dy=dy)
    k = _sqrt(W, 2 * D * dt)
    px, py = list(x), list(y)
    used = set()
    for s in range(p["steps"]):
        T.update()
        X1, Y1, Z1 = W.tolist(S.X), W.tolist(S.Y), W.tolist(S.Z)
        comps = []
        for n in range(npart):
            comps.append((f"dX{n}@{s}", (X1[n] - px[n]) * dx[n]))
            comps.append((f"dY{n}@{s}", (Y1[n] - py[n]) * dy[n]))
        _generic(W)
        # scale and zero mean: each component is exactly k * xi for a draw xi of its own (k >= 0, k^2 = 2 D dt);
        # independence: no draw carries two components (across particles, directions and steps)
        assign = _match(W, comps, k, used, "horizontal-scale", dict(step=s))
        ds = [d for nm, d in assign if d is not None]
        W.prove(len(set(ds)) == len(ds), "independent-draws", dict(step=s))
        W.prove(True, "horizontal-scale")
        W.prove(W.all([W.eq(zz, 5) for zz in Z1]), "horizontal-scale", dict(step=s, note="depth untouched with Dz = 0"))
        px, py = X1, Y1
    return ("horizontal", npart)


def vertical(W, p):
    npart = p["npart"]
    Dz = W.real("Dz", 0, 10, lo_strict=True)
    dt = W.real("dt", 1, 10 ** 5)
    S, T, x, y = _mk(W, npart, 0, Dz, dt, [100] * npart)
    kz = _sqrt(W, 2 * Dz * dt)
    Wv = T.diffuse_vert(num_particles=npart)
    got = W.tolist(Wv)
    _generic(W)
    assign = _match(W, [(f"dZ{n}", got[n] * dt) for n in range(npart)], kz, set(), "vertical-scale", {})
    W.prove(True, "vertical-scale")
    W.prove(True, "independent-draws")
    # through update(): with D = 0 the horizontal position is untouched and no horizontal draw is consumed
    S2, T2, x2, y2 = _mk(W, npart, 0, Dz, dt, [100] * npart, z0=10 ** 6, tag="b")
    before = len(_draws(W))
    T2.update()
    W.prove(W.all([W.eq(a, b) for a, b in zip(W.tolist(S2.X) + W.tolist(S2.Y), x2 + y2)]) if W.symbolic else all(W.eq(a, b) for a, b in zip(W.tolist(S2.X) + W.tolist(S2.Y), x2 + y2)), "deterministic-when-off", dict(note="D = 0, Dz > 0: horizontal position unchanged"))
    W.prove(len(_draws(W)) - before == npart, "independent-draws", dict(note="vertical diffusion alone consumes one draw per particle", consumed=len(_draws(W)) - before))
    return ("vertical",)


def both(W, p):
    """horizontal and vertical diffusion together: each keeps its own scale and its own draws"""
    npart = p["npart"]
    D = W.real("D", 0, 10 ** 4, lo_strict=True)
    Dz = W.real("Dz", 0, 10, lo_strict=True)
    dt = W.real("dt", 1, 10 ** 5)
    dx = [W.real(f"dx{n}", 1, 10 ** 4) for n in range(npart)]
    dy = [W.real(f"dy{n}", 1, 10 ** 4) for n in range(npart)]
    S, T, x, y = _mk(W, npart, D, Dz, dt, dx, z0=10 ** 7, dy=dy)
    k, kz = _sqrt(W, 2 * D * dt), _sqrt(W, 2 * Dz * dt)
    T.update()
    _generic(W)
    W.assume(W.all([W.all([W.le(-100, W.xi(*d)), W.le(W.xi(*d), 100)]) for d in _draws(W)]), "draws within +-100 standard deviations (keeps the particle far from surface and bottom: no reflection)")
    X1, Y1, Z1 = W.tolist(S.X), W.tolist(S.Y), W.tolist(S.Z)
    used = set()
    comps = []
    for n in range(npart):
        comps.append((f"dX{n}", (X1[n] - x[n]) * dx[n]))
        comps.append((f"dY{n}", (Y1[n] - y[n]) * dy[n]))
    _match(W, comps, k, used, "horizontal-scale", dict(mode="both"))
    # depth: far from surface and bottom (no reflection): dZ = kz * xi
    _match(W, [(f"dZ{n}", Z1[n] - 10 ** 7) for n in range(npart)], kz, used, "vertical-scale", dict(mode="both"))
    W.prove(len(_draws(W)) == 3 * npart, "independent-draws", dict(draws=len(_draws(W)), expected=3 * npart))
    W.prove(True, "horizontal-scale")
    W.prove(True, "vertical-scale")
    return ("both",)


def vertadv(W, p):
    """vertical diffusion together with vertical advection: dZ = w dt + kz xi (the random part is applied once)"""
    npart = p["npart"]
    Dz = W.real("Dz", 0, 10, lo_strict=True)
    dt = W.real("dt", 1, 10 ** 5)
    wv = [W.real(f"w{n}", -W.frac(1, 10), W.frac(1, 10)) for n in range(npart)]
    S, T, x, y = _mk(W, npart, 0, Dz, dt, [100] * npart, z0=10 ** 7, wvel=wv)
    kz = _sqrt(W, 2 * Dz * dt)
    T.update()
    _generic(W)
    W.assume(W.all([W.all([W.le(-100, W.xi(*d)), W.le(W.xi(*d), 100)]) for d in _draws(W)]), "draws within +-100 standard deviations (no reflection)")
    Z1 = W.tolist(S.Z)
    _match(W, [(f"dZ{n}", Z1[n] - 10 ** 7 - wv[n] * dt) for n in range(npart)], kz, set(), "vertical-scale", dict(mode="with vertical advection"))
    W.prove(len(_draws(W)) == npart, "independent-draws", dict(draws=len(_draws(W)), expected=npart))
    W.prove(True, "vertical-scale")
    return ("vertadv",)


def off(W, p):
    npart = p["npart"]
    dt = W.real("dt", 1, 10 ** 5)
    S, T, x, y = _mk(W, npart, 0, 0, dt, [W.real(f"dx{n}", 1, 10 ** 4) for n in range(npart)])
    T.update()
    T.update()
    W.prove(W.rng_calls() == [], "deterministic-when-off", dict(calls=W.rng_calls()))
    X1, Y1, Z1 = W.tolist(S.X), W.tolist(S.Y), W.tolist(S.Z)
    W.prove(W.all([W.eq(a, b) for a, b in zip(X1 + Y1, x + y)] + [W.eq(zz, 5) for zz in Z1]), "deterministic-when-off")
    return ("off",)
