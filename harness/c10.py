"""C10 backward tracking = forward tracking in the time-mirrored, sign-flipped flow — relational
co-simulation of the whole real Model (reversed TimeKeeper, ROMS Forcing on multi-file irregular
frames, ParticleReleaser, Tracker, Output with negative period) against the mirrored forward run,
plus a field-level mirror check of the real Forcing with symbolic frame values."""
from harness import romsfile
from harness.common import T0, base_config, ovar, run_main

PROPERTY = "C10"
CLAUSES = {
    "no-crash": "both runs of the pair end normally",
    "records-mirror": "record for record the reversed run holds the same particles at the same positions (and depth, forcing variable) as the forward run in the mirrored, negated flow",
    "clock-reads-backwards": "the reversed run's time coordinate reads S, S-P*dt, S-2P*dt, ...",
    "release-on-time": "each release of the reversed run happens at its stated time (first record at or after it)",
    "forcing-mirror": "at every step the velocity the reversed forcing delivers equals the velocity of the forward forcing on the mirrored frames with negated fields (all frame values symbolic)",
}
BOUNDS = {
    "quick": "Nsteps 4, irregular frames at steps -1,1,2,5 split over 2 files, release rows at two different symbolic steps with symbolic depths, discrete and continuous release, EF/RK2/RK4, output period 1..2; field-level check: 3 symbolic frames, partitions (3),(2,1),(1,2),(1,1,1)",
    "thorough": "Nsteps 5, 3 release rows",
}
ASSUMES = ["currents depend on level and frame with concrete values in the end-to-end pair (positions and depths symbolic; keeps queries linear); all frame values symbolic in the field-level check"]
OUTSIDE = "diffusion"
DT = 600
L, M, N = 6, 6, 2
FRAMES = [-1, 1, 2, 5]


def scenarios(tier):
    q = tier == "quick"
    out = []
    for adv in ("EF", "RK2", "RK4"):
        for cont in (False, True):
            if q and adv != "EF" and cont:
                continue
            out.append(dict(name=f"e2e-{adv}-{'cont' if cont else 'disc'}", fn="e2e", params=dict(adv=adv, cont=cont, nsteps=4 if q else 5, off=(250 if adv == "RK2" else 0)), cost=20))
            if adv == "EF" and not cont:
                out.append(dict(name="e2e-EF-disc-vertadv", fn="e2e", params=dict(adv=adv, cont=cont, nsteps=3, off=0, vertadv=True), cost=25))
                out.append(dict(name="e2e-EF-disc-offgrid", fn="e2e", params=dict(adv=adv, cont=cont, nsteps=4 if q else 5, off=599), cost=20))
    for part in ((3,), (2, 1), (1, 2), (1, 1, 1)):
        out.append(dict(name=f"forcing-mirror-{'_'.join(map(str, part))}", fn="fmirror", params=dict(part=list(part)), cost=5))
    return out


def _uval(W, m, k, sign):
    return sign * W.frac((m + 3) * (3 * k + 1), 300)


def _forcing_files(W, d, S, rev, vertadv=False):
    """frames at simulation steps FRAMES; reversed run: physical time S - m dt, values u_m; forward mirror: S + m dt, values -u_m"""
    d.mkdir(exist_ok=True)
    ones = [[1] * L for _ in range(M)]
    gs = romsfile.grid_vars(L, M, N, h=[[100] * L for _ in range(M)], mask=ones, pm=[[W.frac(1, 800)] * L for _ in range(M)], pn=[[W.frac(1, 800)] * L for _ in range(M)])
    romsfile.write(W, d / "grid.nc", gs)
    sgn = -1 if rev else 1
    # the reversed run sees the fields negated by the model itself, so its files hold +u; the mirrored forward files hold -u
    val = 1 if rev else -1
    steps = FRAMES if not rev else FRAMES[::-1]  # files in ascending physical time
    parts = [steps[:2], steps[2:]]
    for fi, ms in enumerate(parts):
        u = [[[[_uval(W, m, k, val) for i in range(L - 1)] for j in range(M)] for k in range(N)] for m in ms]
        v = [[[[0 for i in range(L)] for j in range(M - 1)] for k in range(N)] for m in ms]
        temp = [[[[_uval(W, m, k, 1) * 10 for i in range(L)] for j in range(M)] for k in range(N)] for m in ms]
        extra = dict(temp=temp)
        if vertadv:
            # vertical velocity: like u and v it changes sign in the mirrored forward set-up
            extra["w"] = [[[[_uval(W, m, k, val) / 10 for i in range(L)] for j in range(M)] for k in range(N)] for m in ms]
        fs = romsfile.forcing_vars([S + sgn * m * DT - romsfile.REFSEC for m in ms], u, v, extra=extra)
        dims = dict(fs[0], xi_rho=L, eta_rho=M, xi_u=L - 1, eta_u=M, xi_v=L, eta_v=M - 1, s_rho=N)
        W.nc_file(d / f"f_{fi:03d}.nc", dims, fs[1])


def _run(W, d, S, rev, rows, p, per):
    sgn = -1 if rev else 1
    W.table(d / "r.rls", ["release_time", "X", "Y", "Z"], [[W.dt(S + sgn * (s * DT + off)), x, y, z] for (s, x, y, z, off) in rows])
    ivars = dict(pid=ovar("i4"), X=ovar("f8"), Y=ovar("f8"), Z=ovar("f8"), temp=ovar("f8"))
    cfg = base_config(W, start=S, stop=S + sgn * p["nsteps"] * DT, dt=DT, rev=rev, release_file=d / "r.rls", advection=p["adv"],
                      state=dict(instance_variables=dict(temp=float), default_values=dict(temp=0)),
                      output=dict(filename=str(d / "out.nc"), output_period=per * DT, instance_variables=ivars))
    cfg["grid"] = dict(module="ladim.ROMS", filename=str(d / "grid.nc"))
    cfg["forcing"] = dict(module="ladim.ROMS", filename=str(d / "f_*.nc"), extra_forcing=["temp"])
    cfg["ibm"] = dict()
    if p.get("vertadv"):
        cfg["forcing"]["extra_forcing"] = ["temp", "w"]
        cfg["state"]["instance_variables"]["w"] = float
        cfg["state"]["default_values"]["w"] = 0
        cfg["tracker"]["vertical_advection"] = True
    if p["cont"]:
        cfg["release"].update(continuous=True, release_frequency=2 * DT)
    run_main(W, cfg)
    return W.nc_read(d / "out.nc")


def e2e(W, p):
    tmp = W.scratch()
    S = T0
    r1 = W.idx(W.int("release_step", 1, p["nsteps"] - 1))
    per = W.idx(W.int("period", 1, 2))
    za, zb = W.real("za", 0, 99), W.real("zb", 0, 99)
    # the second row need not lie on the model's time grid: off seconds (simulation direction) after step r1; it is released at step r1
    # (concrete offsets: pandas hashes the release times, a symbolic one would be enumerated second by second)
    off = p.get("off", 0) if not p["cont"] else 0
    rows = [(0, W.frac(11, 4), 3, za, 0), (r1, W.frac(13, 5), W.frac(5, 2), zb, off)]
    if p["cont"] and p.get("onerow"):
        rows = rows[:1]
    _forcing_files(W, tmp / "R", S, True, vertadv=p.get("vertadv", False))
    _forcing_files(W, tmp / "F", S, False, vertadv=p.get("vertadv", False))
    R = _run(W, tmp / "R", S, True, rows, p, per)
    F = _run(W, tmp / "F", S, False, rows, p, per)
    conds = []
    for var in ("particle_count", "pid", "X", "Y", "Z"):
        a, b = R["vars"][var], F["vars"][var]
        conds.append(len(a) == len(b))
        conds += [W.eq(x, y) for x, y in zip(a, b)]
    W.prove(W.all(conds), "records-mirror", dict(scheme=p["adv"], release_step=r1, period=per, continuous=p["cont"]))
    # clock: decoded instants S - k P dt
    ref = _ref(R["atts"]["time"]["units"])
    W.prove(W.all([W.eq(t + ref, S - k * per * DT) for k, t in enumerate(R["vars"]["time"])]), "clock-reads-backwards")
    # release on time: pid 1 (discrete) first appears in the first record at or after its release step
    if not p["cont"]:
        off, first = 0, None
        for k, c in enumerate(R["vars"]["particle_count"]):
            pids = [int(q) for q in R["vars"]["pid"][off:off + int(c)]]
            off += int(c)
            if 1 in pids and first is None:
                first = k
        want = -(-r1 // per)
        W.prove(first == (want if want * per < p["nsteps"] else None), "release-on-time", dict(first_record=first, release_step=r1, period=per))
    else:
        counts = [int(c) for c in R["vars"]["particle_count"]]
        exp = [len([s for s in range(0, k * per + 1, 2)]) for k in range(len(counts))]
        W.prove(counts == exp, "release-on-time", dict(counts=counts, expected=exp))
    return (r1, per)


def _ref(units):
    import numpy as np

    unit, _, ref = units.partition("since")
    return int((np.datetime64(ref.strip(), "s") - np.datetime64(0, "s")) / np.timedelta64(1, "s"))


def fmirror(W, p):
    """field level, all values symbolic: reversed Forcing on frames at simulation steps m_i == forward Forcing on the mirrored files with negated u, v"""
    from harness import c03

    part = p["part"]
    n = sum(part)
    roms, tk, st = W.load("ladim.ROMS"), W.load("ladim.timekeeper"), W.load("ladim.state")
    Nst = 3
    m = [W.int(f"m{i}", -2, Nst + 2) for i in range(n)]
    for i in range(n - 1):
        W.assume(W.lt(m[i], m[i + 1]), "frames strictly ordered")
    # frames need not lie on the model's time grid: frame i sits off[i] seconds (simulation direction) after step m[i]
    off = [W.int(f"off{i}", 0, DT - 1) for i in range(n)] if p.get("offgrid", True) else [0] * n
    W.assume(W.all([W.le(m[0] * DT + off[0], 0), W.le(Nst * DT, m[-1] * DT + off[-1])]), "forcing covers the window")
    frames = [c03._frame(W, i) for i in range(n)]
    tmp = W.scratch()
    Lc, Mc, Nc = c03.L, c03.M, c03.N
    ones = [[1] * Lc for _ in range(Mc)]
    gs = romsfile.grid_vars(Lc, Mc, Nc, h=[[100] * Lc for _ in range(Mc)], mask=ones, pm=[[W.frac(1, 800)] * Lc for _ in range(Mc)], pn=[[W.frac(1, 800)] * Lc for _ in range(Mc)])
    romsfile.write(W, tmp / "grid.nc", gs)

    def neg(f):
        return [[[-x for x in r] for r in pl] for pl in f]

    results = {}
    for rev in (True, False):
        d = tmp / ("R" if rev else "F")
        d.mkdir()
        sgn = -1 if rev else 1
        order = list(range(n)) if not rev else list(range(n))[::-1]
        ppart = part if not rev else part[::-1]
        k = 0
        for fi, nfr in enumerate(ppart):
            idx = order[k:k + nfr]
            times = [T0 + sgn * (m[i] * DT + off[i]) - romsfile.REFSEC for i in idx]
            us = [frames[i][0] if rev else neg(frames[i][0]) for i in idx]
            vs = [frames[i][1] if rev else neg(frames[i][1]) for i in idx]
            fs = romsfile.forcing_vars(times, us, vs, extra=dict(temp=[frames[i][2] for i in idx]))
            dims = dict(fs[0], xi_rho=Lc, eta_rho=Mc, xi_u=Lc - 1, eta_u=Mc, xi_v=Lc, eta_v=Mc - 1, s_rho=Nc)
            W.nc_file(d / f"f_{fi:03d}.nc", dims, fs[1])
            k += nfr
        timer = tk.TimeKeeper(start=W.dt(T0), stop=W.dt(T0 + sgn * Nst * DT), dt=DT, time_reversal=rev)
        grid = roms.Grid(filename=str(tmp / "grid.nc"))
        S = st.State(instance_variables=dict(temp=float), default_values=dict(temp=0))
        S.append(X=W.frac(9, 4), Y=W.frac(7, 4), Z=30)
        F = roms.Forcing(dict(time=timer, grid=grid, state=S), str(d / "f_*.nc"), extra_forcing=["temp"])
        vals = []
        for s in range(Nst):
            timer.update()
            F.update()
            step_vals = []
            for frac in (0, W.frac(1, 2), 1):
                gu, gv = F.velocity(S.X, S.Y, S.Z, fractional_step=frac)
                step_vals += [W.tolist(gu)[0], W.tolist(gv)[0]]
            step_vals += [W.tolist(F.variables["u"])[0], W.tolist(F.variables["v"])[0], W.tolist(F.variables["temp"])[0]]
            vals.append(step_vals)
        F.close()
        results[rev] = vals
    conds = [W.eq(a, b) for ra, rb in zip(results[True], results[False]) for a, b in zip(ra, rb)]
    W.prove(W.all(conds), "forcing-mirror", dict(part=part))
    return tuple(W.idx(x) for x in m)


def signature(v, scen):
    return f"{v['clause']}:{scen['name'].split('-')[0]}"
