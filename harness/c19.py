"""C19 step protocol — the real main loop / Model.__init__/update/finish / load_module with
recording plug-ins (grid, forcing, IBM, output) and wrapped real release/tracker."""
import os
import sys

from harness.common import PLUG, T0, base_config, ovar, run_main

PROPERTY = "C19"
CLAUSES = {
    "no-crash": "the run ends normally",
    "order": "every step calls release, forcing, [output iff due], tracker, ibm exactly once each, in that order",
    "forcing-sees-new": "forcing is evaluated on all particles including those released in the same step",
    "record-is-forcing-state": "the record written at a step shows exactly the state the forcing saw",
    "ibm-after-move": "the IBM sees every living particle at its moved position, once per step",
    "kill-next-record": "a particle killed by the IBM is in the record of that step's output (already written) but in none after",
    "close-once": "finish() calls close exactly once on every module that has one",
    "path-precedence": "a module given by file path (or present in the working directory) is the one that runs, not a same-named module on sys.path",
}
BOUNDS = {"quick": "Nsteps 1..4, output period 1..3, one late release at any step, one symbolic IBM kill, plug-ins given by path, cold start",
          "thorough": "Nsteps 1..8, period 1..4; plus real NetCDF output module; plug-in by bare module name with decoy"}
ASSUMES = ["constant symbolic velocity, interior positions"]
OUTSIDE = "how many steps a warm-started run takes (C08); whether the catch-up step of a warm start offers its record to the output module"
DT = 600

DECOY = '''
class IBM:
    def __init__(self, modules, log=None, **kw):
        self.log = log
    def update(self):
        self.log.append(("ibm-from", "%s"))
    def close(self):
        pass
'''


def scenarios(tier):
    q = tier == "quick"
    out = [dict(name="protocol", fn="run", params=dict(nmax=4 if q else 8, pmax=3 if q else 4, out="plugin"), cost=10),
           dict(name="protocol-netcdf", fn="run", params=dict(nmax=3 if q else 6, pmax=2 if q else 3, out="netcdf"), cost=10),
           dict(name="warm-start", fn="warm", params=dict(nmax=3 if q else 6, pmax=2 if q else 3), cost=10),
           dict(name="precedence", fn="precedence", params={}, cost=1)]
    return out


def run(W, p):
    N = W.idx(W.int("Nsteps", 1, p["nmax"]))
    P = W.idx(W.int("period", 1, p["pmax"]))
    r1 = W.idx(W.int("rel1", 0, N - 1)) if N > 1 else 0
    r0 = W.idx(W.int("rel0", 0, r1))  # the first release may be later than the start: steps with an empty model
    kstep = W.idx(W.int("killstep", 0, N - 1))
    kflag = W.bool("killflag")
    x0 = W.real("x0", 6, 14)
    x1 = W.real("x1", 6, 14)
    u = W.real("u", -W.frac(1, 100), W.frac(1, 100))
    tmp = W.scratch()
    W.table(tmp / "r.rls", ["release_time", "X", "Y", "Z"], [[W.dt(T0 + r0 * DT), x0, 10, 5], [W.dt(T0 + r1 * DT), x1, 11, 5]])
    log = []
    if p["out"] == "plugin":
        output = dict(module=str(PLUG / "pout.py"), output_period=P * DT, log=log)
    else:
        output = dict(filename=str(tmp / "out.nc"), output_period=P * DT, instance_variables=dict(pid=ovar("i4"), X=ovar("f8")))
    cfg = base_config(W, start=T0, stop=T0 + N * DT, dt=DT, release_file=tmp / "r.rls", u=u, grid=dict(log=log), ibm=dict(log=log, kill={kstep: {0: kflag}}), output=output)
    cfg["forcing"]["log"] = log

    def hook(model):
        for name in ("release", "tracker") + (("output",) if p["out"] == "netcdf" else ()):
            mod = getattr(model, name)
            orig = mod.update

            def wrapped(orig=orig, name=name, model=model):
                st = model.state
                log.append((name + "-call", model.timer.step, list(st.pid), list(st.X), list(st.alive)))
                return orig()

            mod.update = wrapped
            if hasattr(mod, "close"):
                oc = mod.close

                def wclose(oc=oc, name=name):
                    log.append(("close", name))
                    return oc()

                mod.close = wclose

    run_main(W, cfg, hook)
    # ------------------------------------------------------------------ checks on the log
    closes = [e[1] for e in log if e[0] == "close"]
    events = [e for e in log if e[0] != "close"]
    expected_close = ["grid", "forcing", "ibm", "output"]
    W.prove(sorted(closes) == sorted(expected_close), "close-once", dict(closes=closes))
    # per-step sequence
    outname = "output" if p["out"] == "plugin" else "output-call"
    pos = 0
    okorder = True
    dx_step = u * W.frac(DT, 100)
    killed = None
    for s in range(N):
        due = s % P == 0
        want = ["release-call", "forcing"] + ([outname] if due else []) + ["tracker-call", "ibm"]
        if p["out"] == "netcdf" and not due:
            want = ["release-call", "forcing", outname, "tracker-call", "ibm"]  # Output.update is called every step, it decides itself
        got = events[pos:pos + len(want)]
        if [e[0] for e in got] != want or any(e[1] != s for e in got):
            okorder = False
            break
        pos += len(want)
        ev = {e[0]: e for e in got}
        # forcing sees the particles released this step
        exp_pids = ([0] if r0 <= s else []) + ([1] if r1 <= s else [])
        if killed is not None:
            exp_pids = [q for q in exp_pids if q != 0]
        fpids = [int(x) for x in ev["forcing"][2]]
        alive_f = ev["forcing"][4]
        living = [q for q, a in zip(fpids, alive_f)]
        W.prove(set(exp_pids) <= set(fpids), "forcing-sees-new", dict(step=s, forcing_pids=fpids, expected=exp_pids))
        if due and p["out"] == "plugin":
            o = ev[outname]
            opids = [int(x) for x in o[2]]
            same = opids == [q for q, a in zip(fpids, alive_f) if W.truth(a)]
            fx = {int(q): xx for q, xx in zip(ev["forcing"][2], ev["forcing"][3])}
            W.prove(W.all([same] + ([W.eq(xx, fx[int(q)]) for q, xx in zip(o[2], o[3])] if same else [])), "record-is-forcing-state", dict(step=s))
            W.prove(opids == exp_pids, "kill-next-record", dict(step=s, record_pids=opids, expected=exp_pids, killstep=kstep))
        # ibm sees moved positions of all living particles
        fx = {int(q): xx for q, xx in zip(ev["forcing"][2], ev["forcing"][3])}
        ipids = [int(x) for x in ev["ibm"][2]]
        conds = [W.eq(xx, fx[int(q)] + dx_step) for q, xx in zip(ev["ibm"][2], ev["ibm"][3]) if int(q) in fx]
        W.prove(W.all([set(exp_pids) <= set(ipids), len(conds) == len(ipids)] + conds), "ibm-after-move", dict(step=s, ibm_pids=ipids))
        if s == kstep and W.truth(kflag) and 0 in exp_pids:
            killed = s
    W.prove(okorder and pos == len(events), "order", dict(events=[(e[0], e[1]) for e in events][:40], N=N, P=P))
    if p["out"] == "netcdf":
        # the real NetCDF module: pid sets per record read back
        d = W.nc_read(tmp / "out.nc")
        pc = [int(c) for c in d["vars"]["particle_count"]]
        off = 0
        ok = True
        for k, s in enumerate([s for s in range(N) if s % P == 0]):
            exp = ([0] if r0 <= s else []) + ([1] if r1 <= s else [])
            if W.truth(kflag) and r0 <= kstep < s:
                exp = [q for q in exp if q != 0]
            got = [int(x) for x in d["vars"]["pid"][off:off + pc[k]]] if k < len(pc) else None
            off += pc[k] if k < len(pc) else 0
            ok = ok and got == exp
        W.prove(ok, "kill-next-record", dict(N=N, P=P, killstep=kstep))
    return (N, P, r0, r1, kstep)


def warm(W, p):
    """protocol after a warm start: catch-up step 0 (release, forcing, [output], tracker, ibm) then ordinary steps"""
    tmp = W.scratch()
    (tmp / "A").mkdir()
    x0 = W.real("x0", 6, 14)
    u = W.real("u", -W.frac(1, 100), W.frac(1, 100))
    W.table(tmp / "r.rls", ["release_time", "X", "Y", "Z"], [[W.dt(T0), x0, 10, 5], [W.dt(T0 + DT), x0 + 1, 11, 5]])
    ivars = dict(pid=ovar("i4"), X=ovar("f8"), Y=ovar("f8"), Z=ovar("f8"))
    cfgA = base_config(W, start=T0, stop=T0 + 2 * DT, dt=DT, release_file=tmp / "r.rls", u=u,
                       output=dict(filename=str(tmp / "A" / "out.nc"), output_period=DT, instance_variables=ivars))
    run_main(W, cfgA)
    N = W.idx(W.int("Nsteps", 1, p["nmax"]))
    P = W.idx(W.int("period", 1, p["pmax"]))
    log = []
    cfg = base_config(W, start=T0, stop=T0 + (1 + N) * DT, dt=DT, release_file=tmp / "r.rls", u=u, grid=dict(log=log), ibm=dict(log=log),
                      output=dict(module=str(PLUG / "pout.py"), output_period=P * DT, log=log), warm_start=dict(filename=str(tmp / "A" / "out.nc")))
    cfg["forcing"]["log"] = log
    cfg["forcing"]["filename"] = str(tmp / "unused.nc")
    cfg["grid"]["filename"] = str(tmp / "unused.nc")
    W.load("ladim.configure").configure_v2(cfg)

    def hook(model):
        for name in ("release", "tracker"):
            mod = getattr(model, name)
            orig = mod.update

            def wrapped(orig=orig, name=name, model=model):
                st = model.state
                log.append((name + "-call", model.timer.step, list(st.pid), list(st.X), list(st.alive)))
                return orig()

            mod.update = wrapped

    # the catch-up step happens inside Model.__init__, before the hook could wrap: wrap at class level for this run
    model_mod = W.load("ladim.model")
    relmod, trkmod = W.load("ladim.release"), W.load("ladim.tracker")
    ro, to = relmod.ParticleReleaser.update, trkmod.Tracker.update

    def rwrap(self):
        st = self.modules["state"]
        log.append(("release-call", self.modules["time"].step, list(st.pid), list(st.X), list(st.alive)))
        return ro(self)

    def twrap(self):
        st = self.modules["state"]
        log.append(("tracker-call", self.modules["time"].step, list(st.pid), list(st.X), list(st.alive)))
        return to(self)

    relmod.ParticleReleaser.update, trkmod.Tracker.update = rwrap, twrap
    try:
        run_main(W, cfg)
    finally:
        relmod.ParticleReleaser.update, trkmod.Tracker.update = ro, to
    events = [e for e in log if e[0] != "close"]
    steps = sorted({e[1] for e in events})
    ok = steps == list(range(len(steps))) and len(steps) >= 1
    detail = []
    for s_ in steps:
        names = [e[0] for e in events if e[1] == s_]
        due = s_ % P == 0
        allowed = [["release-call", "forcing", "output", "tracker-call", "ibm"]] if (due and s_ > 0) else [["release-call", "forcing", "tracker-call", "ibm"]]
        if s_ == 0:
            allowed = [["release-call", "forcing", "tracker-call", "ibm"], ["release-call", "forcing", "output", "tracker-call", "ibm"]]
        if names not in allowed:
            ok = False
            detail.append((s_, names))
    # events must also be grouped by step in order
    ok = ok and [e[1] for e in events] == sorted(e[1] for e in events)
    W.prove(ok, "order", dict(start="warm", N=N, P=P, wrong=detail[:4], steps=steps))
    # the warm-started state holds both particles of the restart file and the forcing sees them at step 0
    f0 = [e for e in events if e[0] == "forcing" and e[1] == 0]
    W.prove(len(f0) == 1 and [int(q) for q in f0[0][2]] == [0, 1], "forcing-sees-new", dict(start="warm", pids=[int(q) for q in f0[0][2]] if f0 else None))
    closes = [e[1] for e in log if e[0] == "close"]
    W.prove(sorted(closes) == ["forcing", "grid", "ibm", "output"], "close-once", dict(start="warm", closes=closes))
    return ("warm", N, P, len(steps))


def precedence(W, p):
    """bare module name: working directory beats sys.path; path given: that very file"""
    tmp = W.scratch()
    cwdv = tmp / "work"
    sp = tmp / "site"
    cwdv.mkdir()
    sp.mkdir()
    (cwdv / "sxmyibm.py").write_text(DECOY % "cwd")
    (sp / "sxmyibm.py").write_text(DECOY % "syspath")
    (sp / "sxonlypath.py").write_text(DECOY % "syspath-only")
    (tmp / "given").mkdir()
    (tmp / "given" / "sxmyibm.py").write_text(DECOY % "given-path")
    (cwdv / "rel").mkdir()
    (cwdv / "rel" / "sxmyibm.py").write_text(DECOY % "relative-path")
    x0 = W.real("x0", 6, 14)
    W.table(tmp / "r.rls", ["release_time", "X", "Y", "Z"], [[W.dt(T0), x0, 10, 5]])
    old = os.getcwd()
    sys.path.insert(0, str(sp))
    os.chdir(cwdv)
    res = {}
    try:
        for label, modname in (("bare", "sxmyibm"), ("path", str(tmp / "given" / "sxmyibm")), ("path.py", str(tmp / "given" / "sxmyibm.py")), ("syspath-only", "sxonlypath"),
                               ("relative", "rel/sxmyibm"), ("relative.py", "rel/sxmyibm.py")):
            log = []
            cfg = base_config(W, start=T0, stop=T0 + 1 * DT, dt=DT, release_file=tmp / "r.rls",
                              output=dict(module=str(PLUG / "pout.py"), output_period=DT, log=[]), ibm=dict(log=log))
            cfg["ibm"]["module"] = modname
            for k in ("sxmyibm", "sxonlypath", "ladim_custom_sxmyibm"):
                sys.modules.pop(k, None)
            run_main(W, cfg)
            res[label] = [e[1] for e in log if e[0] == "ibm-from"]
    finally:
        os.chdir(old)
        sys.path.remove(str(sp))
        for k in ("sxmyibm", "sxonlypath", "ladim_custom_sxmyibm"):
            sys.modules.pop(k, None)
    W.prove(res.get("bare") == ["cwd"], "path-precedence", dict(case="bare name, file in cwd and on sys.path", got=res.get("bare")))
    W.prove(res.get("path") == ["given-path"] and res.get("path.py") == ["given-path"], "path-precedence", dict(case="explicit path", got=[res.get("path"), res.get("path.py")]))
    W.prove(res.get("syspath-only") == ["syspath-only"], "path-precedence", dict(case="only on sys.path", got=res.get("syspath-only")))
    W.prove(res.get("relative") == ["relative-path"] and res.get("relative.py") == ["relative-path"], "path-precedence", dict(case="path relative to the working directory", got=[res.get("relative"), res.get("relative.py")]))
    # a module that exists nowhere ends in SystemExit
    cfg = base_config(W, start=T0, stop=T0 + DT, dt=DT, release_file=tmp / "r.rls", output=dict(module=str(PLUG / "pout.py"), output_period=DT, log=[]))
    cfg["ibm"]["module"] = "sx_no_such_module_anywhere"
    try:
        run_main(W, cfg)
        ok = False
    except SystemExit:
        ok = True
    W.prove(ok, "path-precedence", dict(case="missing module -> SystemExit"))
    # grid and forcing sections that are one shared mapping (what a YAML alias `grid: *gf` yields): the user's file serves both
    shared = dict(module=str(PLUG / "pgridforce.py"), u=W.frac(1, 100), v=0, w=0, temp=None, filename=str(tmp / "unused.nc"))
    cfg = base_config(W, start=T0, stop=T0 + 2 * DT, dt=DT, release_file=tmp / "r.rls", output=dict(module=str(PLUG / "pout.py"), output_period=DT, log=[]))
    cfg["grid"] = shared
    cfg["forcing"] = shared
    model = run_main(W, cfg)
    names = (type(model.grid).__module__, type(model.force).__module__)
    W.prove(all("pgridforce" in n for n in names), "path-precedence", dict(case="one mapping shared by the grid and forcing sections", loaded=names))
    X = W.tolist(model.state.X)
    W.prove(len(X) == 1 and W.truth(W.eq(X[0], x0 + 2 * W.frac(6, 100))), "path-precedence", dict(case="shared mapping: the particle is moved by the user's forcing (0.06 cells per step)"))
    # the same configuration object used for a second run loads the same modules again
    model2 = run_main(W, cfg)
    names2 = (type(model2.grid).__module__, type(model2.force).__module__, type(model2.ibm).__module__)
    W.prove(all("pgridforce" in n for n in names2[:2]) and "pibm" in names2[2], "path-precedence", dict(case="second run from the same configuration", loaded=names2))
    return ("precedence",)
