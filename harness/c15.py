"""C15 depth stays in the water column — vertical part of the real Tracker.update
(diffuse_vert, vertical advection, reflection) with the real ROMS Grid.depth on a symbolic bathymetry."""
import math

from harness.trkcommon import NSTAGES, StageForce, Timer, in_valid, roms_grid

PROPERTY = "C15"
CLAUSES = {
    "no-crash": "the step raises no exception",
    "in-column": "0 <= Z' <= h(start cell) whenever the vertical displacement of the step is smaller than h",
    "reflection": "Z' is Z + d reflected once at the surface or at the bottom of the start cell",
    "unchanged-when-off": "with vertical diffusion and vertical advection off, Z is left untouched",
}
BOUNDS = {
    "quick": "bathymetry of a 6x6 grid symbolic (1..5000 m per cell), 2 particles anywhere inside their start cells, each carried into a neighbour cell of different (symbolic) depth during the step, Z in [0,h], w and the normal draw any real with |displacement| < h, dt = 600 s, Dz in {0, 0.75}; two steps of vertical motion only with the particle replaced in between (death, compactify, release in a cell of another depth); horizontal schemes EF/RK2/RK4 with a horizontal move of up to one cell",
    "thorough": "2 free particles",
}
ASSUMES = ["start depth in [0, h] of the start cell", "|(w + w_diff) dt| < h"]
OUTSIDE = "NaN/inf"


def scenarios(tier):
    out = []
    for adv in ("EF", "RK2", "RK4"):
        for mode in ("adv", "diff", "both", "off"):
            out.append(dict(name=f"{adv}-{mode}", fn="run", params=dict(adv=adv, mode=mode, npart=1), cost=10))
    out.append(dict(name="RK2-both-p2", fn="run", params=dict(adv="RK2", mode="both", npart=2), cost=100))
    # two steps of vertical motion only (no horizontal advection or diffusion) with a change of membership in between: the particle
    # dies and is removed, another one is released in a cell of another depth (same count) - the second step must use that cell's depth
    for mode in ("adv", "both"):
        out.append(dict(name=f"twostep-replace-{mode}", fn="twostep", params=dict(adv="none", mode=mode), cost=10))
    if tier != "quick":
        out.append(dict(name="RK4-both-p2", fn="run", params=dict(adv="RK4", mode="both", npart=2), cost=100))
    return out


def _rint(W, x):
    if W.symbolic:
        return W.idx(W.core.SN.of(int(W.core.SN.real(x).rint().const())))
    return int(round(x))


def _sqrt(W, v):
    return W.core.sym_sqrt(v) if W.symbolic else math.sqrt(v)


def run(W, p):
    adv, mode, npart = p["adv"], p["mode"], p["npart"]
    trk, st = W.load("ladim.tracker"), W.load("ladim.state")
    grid, mask, h = roms_grid(W, 6, 6, sub=None, sym_mask=False, sym_h=True)
    dt = 600  # w and the normal draw are arbitrary reals, so the displacement is arbitrary; keeps queries linear
    x = [W.real(f"x{n}") for n in range(npart)]
    y = [W.real(f"y{n}") for n in range(npart)]
    z = [W.real(f"z{n}", 0) for n in range(npart)]
    hh = []
    START = [(2, 2), (3, 3)]
    for n in range(npart):
        cx, cy = START[n]
        if n == 1:
            W.assume(W.all([W.eq(x[n], cx), W.eq(y[n], cy)]), "second particle starts at a cell centre")
        W.assume(W.all([W.lt(cx - W.frac(2, 5), x[n]), W.lt(x[n], cx + W.frac(2, 5)), W.lt(cy - W.frac(2, 5), y[n]), W.lt(y[n], cy + W.frac(2, 5))]), "start anywhere inside one cell (the depth logic is per particle)")
        hh.append(h[cy][cx])
        W.assume(W.le(z[n], hh[n]), "start depth inside the column of the start cell")
    ns = NSTAGES[adv]
    # horizontal velocity: up to one cell per step so that the particle may change cell during the step
    U = {(k, c, n): W.real(f"{c}{k}_{n}") for k in range(ns) for c in "uv" for n in range(npart)}
    for (k, c, n), val in U.items():
        # every stage velocity carries the particle 0.7..0.9 cell towards a neighbour cell with another depth
        if (n == 0 and c == "u"):
            W.assume(W.all([W.lt(W.frac(7, 10) * 800, val * 600), W.lt(val * 600, W.frac(9, 10) * 800)]), "horizontal move into the neighbour cell")
        elif (n == 1 and c == "v"):
            W.assume(W.eq(val * 600, -W.frac(8, 10) * 800), "second particle: horizontal move of 0.8 cell into the neighbour cell")
        else:
            W.assume(W.eq(val, 0))
    wv = [W.real(f"w{n}") for n in range(npart)]
    Dz = W.frac(3, 4) if mode in ("diff", "both") else 0  # sqrt(2 Dz / dt) = 1/20 exactly
    S = st.State()
    S.append(X=W.arr(x, "f"), Y=W.arr(y, "f"), Z=W.arr(z, "f"))
    F = StageForce(W, lambda k, c: [U[(k, c, n)] for n in range(npart)], w=W.arr(wv, "f"))
    # horizontal part at dt = 600 would make products symbolic*symbolic; keep the horizontal displacement linear by giving
    # the tracker the symbolic dt only through the vertical part: dt is one number in the code, so use it everywhere
    T = trk.Tracker(advection=adv, vertdiff=Dz, vertical_advection=mode in ("adv", "both"), modules=dict(state=S, grid=grid, forcing=F, time=Timer(dt)))
    W.patch_rng(T)
    T.update()
    Z1 = W.tolist(S.Z)
    skel = []
    for n in range(npart):
        if mode == "off":
            W.prove(W.eq(Z1[n], z[n]), "unchanged-when-off", dict(particle=n))
            continue
        d = 0
        if mode in ("diff", "both"):
            d = d + _sqrt(W, 2 * Dz / dt) * W.xi(0, n) * dt
        if mode in ("adv", "both"):
            d = d + wv[n] * dt
        small = W.all([W.lt(-hh[n], d), W.lt(d, hh[n])])
        W.prove(W.implies(small, W.all([W.le(0, Z1[n]), W.le(Z1[n], hh[n])])), "in-column", dict(particle=n, scheme=adv))
        zz = z[n] + d
        exp = W.ite(W.lt(zz, 0), -zz, W.ite(W.lt(hh[n], zz), 2 * hh[n] - zz, zz))
        W.prove(W.implies(small, W.eq(Z1[n], exp)), "reflection", dict(particle=n, scheme=adv))
    return (adv, mode)


def twostep(W, p):
    mode = p["mode"]
    trk, st = W.load("ladim.tracker"), W.load("ladim.state")
    grid, mask, h = roms_grid(W, 6, 6, sub=None, sym_mask=False, sym_h=True)
    dt = 600
    cells = [(2, 2), (3, 3)]
    x = [W.real(f"x{n}") for n in range(2)]
    y = [W.real(f"y{n}") for n in range(2)]
    z = [W.real(f"z{n}", 0) for n in range(2)]
    hh = []
    for n, (cx, cy) in enumerate(cells):
        W.assume(W.all([W.lt(cx - W.frac(2, 5), x[n]), W.lt(x[n], cx + W.frac(2, 5)), W.lt(cy - W.frac(2, 5), y[n]), W.lt(y[n], cy + W.frac(2, 5))]), "each particle anywhere inside its cell")
        hh.append(h[cy][cx])
        W.assume(W.le(z[n], hh[n]), "start depth inside the column of the start cell")
    wv = [W.real(f"w{n}") for n in range(2)]
    Dz = W.frac(3, 4) if mode == "both" else 0
    S = st.State()
    S.append(X=W.arr(x[:1], "f"), Y=W.arr(y[:1], "f"), Z=W.arr(z[:1], "f"))
    F = StageForce(W, lambda k, c: [0], w=W.arr(wv[:1], "f"))
    T = trk.Tracker(advection="", vertdiff=Dz, vertical_advection=True, modules=dict(state=S, grid=grid, forcing=F, time=Timer(dt)))
    W.patch_rng(T)
    T.update()
    # the first particle dies and is removed; the second is released (what Model.update does between two tracker steps)
    S["alive"] = W.arr([False], "b")
    S.compactify()
    S.append(X=W.arr(x[1:], "f"), Y=W.arr(y[1:], "f"), Z=W.arr(z[1:], "f"))
    F.variables["w"] = W.arr(wv[1:], "f")
    T.update()
    Z2 = W.tolist(S.Z)
    W.prove(len(Z2) == 1, "in-column", dict(note="one particle after the replacement"))
    d = wv[1] * dt
    if mode == "both":
        d = d + _sqrt(W, 2 * Dz / dt) * W.xi(1, 0) * dt
    small = W.all([W.lt(-hh[1], d), W.lt(d, hh[1])])
    W.prove(W.implies(small, W.all([W.le(0, Z2[0]), W.le(Z2[0], hh[1])])), "in-column", dict(particle=1, note="second step, after the replacement"))
    zz = z[1] + d
    exp = W.ite(W.lt(zz, 0), -zz, W.ite(W.lt(hh[1], zz), 2 * hh[1] - zz, zz))
    W.prove(W.implies(small, W.eq(Z2[0], exp)), "reflection", dict(particle=1, note="second step, after the replacement"))
    return ("twostep", mode)


def signature(v, scen):
    return f"{v['clause']}:{scen['params']['adv']}:{scen['params']['mode']}"
