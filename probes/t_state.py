import sys; sys.path.insert(0,"/tmp/probe")
from sx import *
import time
st = load("ladim.state")
def scenario():
    # arbitrary valid pre-state with n=3 particles: pids strictly increasing < npid
    S = st.State(instance_variables=dict(age=float), particle_variables=dict(w0=float))
    n = 3
    pid = [fresh_int(f"pid{i}") for i in range(n)]
    npid = fresh_int("npid")
    E.assume(pid[0] >= 0)
    for i in range(n-1): E.assume(pid[i] < pid[i+1])
    E.assume(pid[-1] < npid); E.assume(npid <= 5)
    S.variables["pid"] = SA(pid, "i")
    for v in ("X","Y","Z","age"): S.variables[v] = SA([fresh_real(f"{v}{i}") for i in range(n)])
    for v in ("alive","active"): S.variables[v] = SA([fresh_bool(f"{v}{i}") for i in range(n)], "b")
    NP = npid.__index__()
    S.variables["w0"] = SA([fresh_real(f"w0_{i}") for i in range(NP)])
    S.npid = npid
    pre = {k: v.copy() for k, v in S.variables.items()}
    S.compactify()
    # post: survivors are exactly alive ones in order
    keep = [i for i in range(n) if bool(pre["alive"].a[i])]
    assert len(S) == len(keep), (len(S), keep)
    for var in S.instance_variables:
        assert len(S.variables[var]) == len(keep)
        for k, i in enumerate(keep):
            a, b = S.variables[var].a[k], pre[var].a[i]
            E.prove(a == b, f"{var}[{k}]")
    assert len(S.variables["w0"]) == NP
    # now append m new particles
    S.append(X=fresh_real("nx"), Y=SA([fresh_real("ny0"), fresh_real("ny1")]), Z=5, age=0.0, w0=1.0)
    assert len(S) == len(keep) + 2
    E.prove(S.pid.a[-2] == npid); E.prove(S.pid.a[-1] == npid + 1)
    E.prove(S.npid == npid + 2)
    for k in range(len(S) - 1): E.prove(S.pid.a[k] < S.pid.a[k+1])
    return len(keep)
t = time.time(); r = E.run(scenario)
print("paths", E.paths, "queries", E.queries, "solver_s", round(E.t_solver, 2), "wall", round(time.time()-t, 2), sorted(set(r)))
