import sys; sys.path.insert(0,"/tmp/probe")
from sx import *
import time
# ROMS imports netCDF4 and ladim.sample etc: provide stubs
nc4 = types.ModuleType("netCDF4"); nc4.Dataset=None; nc4.num2date=None
_old = my_import
import sx
def imp(name, g=None, l=None, fromlist=(), level=0):
    if name == "netCDF4": return nc4
    return _old(name, g, l, fromlist, level)
sx.B["__import__"] = imp
symnp.timedelta64 = np_timedelta64
roms = load("ladim.ROMS")
kmax, jmax, imax = 3, 3, 3
def scenario():
    F = SA(rnp.array([[[fresh_real(f"F{k}{j}{i}") for i in range(imax+1)] for j in range(jmax)] for k in range(kmax)], dtype=object))
    zr = SA(rnp.array([[[fresh_real(f"z{k}_{j}{i}") for i in range(imax)] for j in range(jmax)] for k in range(kmax)], dtype=object))
    for j in range(jmax):
        for i in range(imax):
            for k in range(kmax-1): E.assume(zr.a[k,j,i] < zr.a[k+1,j,i])
            E.assume(zr.a[kmax-1,j,i] < 0)
    x, y, z = fresh_real("x"), fresh_real("y"), fresh_real("z")
    # valid region local coords: 0.5 < x < imax-1.5
    E.assume(x > 0.5); E.assume(x < imax - 1.5); E.assume(y > 0.5); E.assume(y < jmax - 1.5)
    X, Y, Z = SA([x]), SA([y]), SA([z])
    K, A = roms.z2s(zr, X, Y, Z)
    k, a = K.a[0], A.a[0]
    E.prove(a >= 0); E.prove(a <= 1); E.prove(k >= 1); E.prove(k <= kmax-1)
    I = int(x.rint().e.arg(0).as_long()) if False else None
    # clamp identity
    ii = SN.of(X.round().astype(int).a[0]).__index__(); jj = SN.of(Y.round().astype(int).a[0]).__index__()
    col = [zr.a[kk, jj, ii] for kk in range(kmax)]
    kc = k.__index__()
    lhs = a * col[kc-1] + (1 - a) * col[kc]
    mz = -z
    clamp = SN(z3.If(mz.e < col[0].e, col[0].e, z3.If(mz.e > col[-1].e, col[-1].e, mz.e)))
    E.prove(lhs == clamp, "clamp identity")
    # U-sampling
    R = roms.sample3D(F, X + 0.5, Y, K, A)
    r = R.a[0]
    # weights: substitute unit vectors
    flat = [F.a[kk,j,i] for kk in range(kmax) for j in range(jmax) for i in range(imax+1)]
    ws = []
    for g in flat:
        w = z3.substitute(r.e, *[(f.e, z3.RealVal(1 if f is g else 0)) for f in flat])
        ws.append(w)
    E.prove(SB(z3.And(*[w >= 0 for w in ws])), "nonneg")
    E.prove(SB(z3.Sum(ws) == 1), "sum1")
    return (ii, jj, kc)
t = time.time(); r = E.run(scenario)
print("paths", E.paths, "queries", E.queries, "solver_s", round(E.t_solver, 2), "wall", round(time.time()-t, 2), sorted(set(r)))
