from pathlib import Path
from ladim.out_netcdf import filename_generator
from ladim.timekeeper import duration2iso, normalize_period
import datetime

def gen_numbering(n: int, k: int) -> bool:
    """
    pre: 0 <= n <= 990 and 0 <= k <= 5
    post: _
    """
    g = filename_generator(Path(f"out_{n:03d}.nc"))
    for _ in range(k):
        next(g)
    return next(g) == Path(f"out_{n+k:03d}.nc")

def iso_roundtrip(sec: int) -> bool:
    """
    pre: 0 < sec < 86400
    post: _
    """
    s = duration2iso(datetime.timedelta(seconds=sec))
    return int(normalize_period(s) / __import__("numpy").timedelta64(1, "s")) == sec

def period_list(v: int) -> bool:
    """
    pre: 0 <= v < 10000
    post: _
    """
    import numpy as np
    return normalize_period([v, "m"]) == np.timedelta64(60 * v, "s")

def period_str(s: str) -> bool:
    """
    pre: len(s) <= 5
    post: _
    """
    try:
        normalize_period(s)
    except ValueError:
        return True
    return s.startswith("PT") and len(s) > 3
