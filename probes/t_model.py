import sys, time, warnings, tempfile, shutil, os; sys.path.insert(0,"/tmp/probe"); warnings.simplefilter("ignore")
from sx import *
import sx, pandas as rpd, inspect, importlib as _real_importlib
from pathlib import Path
exec(open("/tmp/probe/t_out.py").read().split("nc4 = types.ModuleType")[0].split("# ---- netCDF write stub ----")[1])   # WVar, WDS, FILES
SA.__array__ = lambda s, dtype=None, copy=None: s.a
TABLE = {}
def fake_read_csv(f, **kw):
    inspect.signature(rpd.read_csv).bind(f, **kw); return TABLE["df"].copy()
pdm = types.ModuleType("pandas")
for k in dir(rpd):
    try: setattr(pdm, k, getattr(rpd, k))
    except Exception: pass
pdm.read_csv = fake_read_csv
nc4 = types.ModuleType("netCDF4"); nc4.Dataset = WDS; nc4.num2date = None
PLUG = {}
class ImpProxy:
    util = _real_importlib.util
    @staticmethod
    def import_module(name):
        if name in PLUG: return PLUG[name]
        if name.startswith("ladim"): return load(name)
        return _real_importlib.import_module(name)
_old = sx.B["__import__"]
def imp(name, g=None, l=None, fromlist=(), level=0):
    if name == "netCDF4": return nc4
    if name == "pandas": return pdm
    if name == "importlib" or name == "importlib.util": return ImpProxy
    return _old(name, g, l, fromlist, level)
sx.B["__import__"] = imp
symnp.full = lambda n, v: SA(rnp.full(n, v, dtype=object), "b" if isinstance(v, bool) else "f")
SA.max = lambda s: __import__("functools").reduce(lambda a, b: s_max(a, b), list(s.a))
def np_broadcast(*vals):
    vals = [rnp.asarray(v, dtype=object) if hasattr(v, "to_numpy") else v for v in vals]
    return sx._Bc(*[SA(v) if isinstance(v, rnp.ndarray) and v.ndim else v for v in vals])
symnp.broadcast = np_broadcast
_bt = symnp.broadcast_to
symnp.broadcast_to = lambda v, shape: _bt(SA(rnp.asarray(v, dtype=object)) if hasattr(v, "to_numpy") else v, shape)
# plug-in grid and forcing (harness-written, symbolic-friendly)
gridmod = types.ModuleType("sxplug_grid")
class Grid:
    xmin, xmax, ymin, ymax = 0.0, 20.0, 0.0, 20.0
    def __init__(s, modules=None, **kw): s.dx = kw.get("dx", 100)
    def metric(s, X, Y): return SA([s.dx] * len(X)), SA([s.dx] * len(X))
    def ingrid(s, X, Y): return (X > 0.5) & (X < 19.5) & (Y > 0.5) & (Y < 19.5)
    def atsea(s, X, Y): return SA([True] * len(X), "b")
    def depth(s, X, Y): return SA([50] * len(X))
gridmod.Grid = Grid
forcemod = types.ModuleType("sxplug_force")
class Forcing:
    def __init__(s, modules=None, **kw): s.modules = modules; s.u = kw["u"]; s.v = kw["v"]; s.variables = {}
    def update(s): LOGC.append(("forcing", s.modules["time"].step, len(s.modules["state"])))
    def velocity(s, X, Y, Z, fractional_step=0, method="bilinear"): return SA([s.u] * len(X)), SA([s.v] * len(X))
    def close(s): LOGC.append(("forcing.close",))
forcemod.Forcing = Forcing
PLUG.update(sxplug_grid=gridmod, sxplug_force=forcemod)
LOGC = []
model = load("ladim.model")
dt = 600; start = 946684800
def scenario(Nsteps, per):
    FILES.clear(); LOGC.clear()
    u, v = fresh_real("u"), fresh_real("v"); x0 = fresh_real("x0")
    E.assume(x0 > 5); E.assume(x0 < 15); E.assume(u > -0.1); E.assume(u < 0.1); E.assume(v > -0.1); E.assume(v < 0.1)
    m1 = fresh_int("m1"); E.assume(m1 >= 0); E.assume(m1 <= Nsteps)
    times = [DT(start), DT(SN.of(start) + m1 * dt)]
    TABLE["df"] = rpd.DataFrame(dict(X=rnp.array([x0, x0 + 1], dtype=object), Y=[7, 8], Z=[5, 5]), index=rpd.Index(rnp.array(times, dtype=object), name="release_time"))
    ivars = dict(pid=dict(encoding=dict(datatype="i4"), attributes={}), X=dict(encoding=dict(datatype="f4"), attributes={}))
    config = dict(
        state=dict(), time=dict(start=DT(start), stop=DT(start + Nsteps * dt), dt=dt),
        grid=dict(module="sxplug_grid"), forcing=dict(module="sxplug_force", u=u, v=v),
        release=dict(release_file="x.rls"), tracker=dict(advection="EF"), ibm=dict(),
        output=dict(filename="o.nc", output_period=TD(per * dt), instance_variables=ivars), warm_start=dict())
    M = model.Model(config)
    for _ in range(M.timer.Nsteps): M.update()
    M.finish()
    ds = FILES["o.nc"]
    nrec = ds.dimlen["time"]; m1c = m1.__index__()
    # record r holds X of particle 0 after r*per EF steps
    obl = 0
    for r in range(nrec):
        got = ds.variables["X"].cells[(sum(1 + (1 if m1c <= q * per and m1c < Nsteps else 0) for q in range(r)),)]
        exp = x0 + u * fractions.Fraction(dt, 100) * (r * per)
        E.prove(SN.of(got) == exp, f"record {r}"); obl += 1
    return (m1c, nrec, obl)
for Nsteps, per in ((4, 2), (4, 1)):
    t = time.time(); E.paths = 0
    try:
        r = E.run(lambda: scenario(Nsteps, per)); print("Nsteps", Nsteps, "per", per, "paths", len(r), r, "wall", round(time.time() - t, 1))
    except BaseException as e:
        import traceback; print("EXC", type(e).__name__, str(e)[:300]); traceback.print_exc(limit=6)
