import sys; sys.path.insert(0,"/tmp/probe")
from sx import *
import time
tk = load("ladim.timekeeper")
def scenario(rev):
    s0, d, n = fresh_int("start"), fresh_int("dur"), fresh_int("n")
    dt = 600
    E.assume(d >= 0); E.assume(n >= 0)
    start = DT(s0); stop = DT(s0 - d) if rev else DT(s0 + d)
    if rev: E.assume(d > 0)
    T = tk.TimeKeeper(start=start, stop=stop, dt=dt, time_reversal=rev)
    E.prove(T.Nsteps * dt <= d); E.prove(d < (T.Nsteps + 1) * dt)
    T.update()   # step 0
    exp0 = start
    E.prove(T.time == exp0, "clock at step 0")
    return "ok"
for rev in (False, True):
    try:
        E.paths = 0; r = E.run(lambda: scenario(rev)); print(rev, r, E.paths)
    except AssertionError as e: print(rev, "VIOLATION", str(e)[:200])
