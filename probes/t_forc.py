import sys, os, tempfile, shutil, time; sys.path.insert(0,"/tmp/probe")
from sx import *
import sx
from pathlib import Path
# ---- netCDF read stub ----
REG = {}
class SVar:
    def __init__(s, data, **att): s.data = data; s.__dict__.update(att)
    def __getitem__(s, k): return s.data[k]
    def __len__(s): return len(s.data)
class SDS:
    def __init__(s, path, *a, **k): s.path = Path(path); s.variables = REG[s.path.name]; LOG.append(("open", s.path.name))
    def set_auto_maskandscale(s, f): pass
    def close(s): pass
    def __enter__(s): return s
    def __exit__(s, *a): pass
LOG = []
nc4 = types.ModuleType("netCDF4"); nc4.Dataset = SDS
nc4.num2date = lambda times, units: [DT(SN.of(t) + REF) for t in SA.un(times)]
REF = int((rnp.datetime64("2000-01-01") - rnp.datetime64("1970-01-01")) / rnp.timedelta64(1, "s"))
_old = sx.B["__import__"]
def imp(name, g=None, l=None, fromlist=(), level=0):
    if name == "netCDF4": return nc4
    return _old(name, g, l, fromlist, level)
sx.B["__import__"] = imp
# SA._lift must leave DT alone
def _lift(s): return rnp.array([x if (is_sym(x) or isinstance(x, (DT, TD))) else SN.of(x) for x in s.a.ravel()], dtype=object).reshape(s.a.shape) if s.kind != "b" else s.a
SA._lift = _lift
symnp.array = lambda x, dtype=None: SA(rnp.array(list(x) if not isinstance(x, SA) else x.a, dtype=object), "f")
roms = load("ladim.ROMS"); tk = load("ladim.timekeeper")
kmax, jmax, imax = 2, 3, 3
class Grid:
    i0 = j0 = 1; I = J = slice(1, 4); Iu = slice(0, 4); Ju = J; Iv = I; Jv = slice(0, 4)
    Mu = SA(rnp.ones((jmax, imax + 1), dtype=object), "i"); Mv = SA(rnp.ones((jmax + 1, imax), dtype=object), "i")
    z_r = SA(rnp.array([[[-30.0]*imax]*jmax, [[-10.0]*imax]*jmax], dtype=object))
class St: pass
def mkframe(tag):
    u = rnp.array([[[fresh_real(f"u{tag}_{k}{j}{i}") for i in range(6)] for j in range(6)] for k in range(kmax)], dtype=object)
    v = rnp.array([[[fresh_real(f"v{tag}_{k}{j}{i}") for i in range(6)] for j in range(6)] for k in range(kmax)], dtype=object)
    return u, v
def scenario(tmp, part, rev, Nsteps, dt=600):
    # part = frames per file, e.g. (2,1)
    LOG.clear(); REG.clear()
    for p in tmp.glob('*.nc'): p.unlink()
    n = sum(part)
    m = [fresh_int(f"m{i}") for i in range(n)]
    for i in range(n - 1): E.assume(m[i] < m[i+1]); E.assume(m[i+1] - m[i] <= 3)
    E.assume(m[0] >= -3); E.assume(m[0] <= 0); E.assume(m[-1] >= Nsteps); E.assume(m[-1] <= Nsteps + 3)
    start = REF + 86400
    # physical frame times: forward start + m*dt ; reversed: start - m*dt (files hold ascending physical time)
    frames = [mkframe(i) for i in range(n)]
    order = list(range(n)) if not rev else list(range(n))[::-1]
    phys = [(start + (m[i] * dt if not rev else -m[i] * dt)) for i in order]
    files = []; k = 0
    for fi, nfr in enumerate(part):
        name = f"f_{fi:03d}.nc"; files.append(name); (tmp / name).touch()
        idx = order[k:k + nfr]
        REG[name] = dict(
            ocean_time=SVar(SA([phys[k + q] - REF for q in range(nfr)], "i"), units="seconds since 2000-01-01 00:00:00"),
            u=SVar(SA(rnp.array([frames[i][0] for i in idx], dtype=object))),
            v=SVar(SA(rnp.array([frames[i][1] for i in idx], dtype=object))))
        k += nfr
    stop = start + Nsteps * dt if not rev else start - Nsteps * dt
    timer = tk.TimeKeeper(start=DT(start), stop=DT(stop), dt=dt, time_reversal=rev)
    st = St(); st.X = SA([2.3]); st.Y = SA([2.6]); st.Z = SA([15.0])
    mods = dict(time=timer, grid=Grid, state=st)
    F = roms.Forcing(mods, str(tmp / "f_*.nc"))
    mc = [SN.of(x).__index__() for x in m]
    nobl = 0
    for s in range(Nsteps):
        timer.update(); F.update()
        # oracle: bracketing frames in simulation order
        i = max(q for q in range(n) if mc[q] <= s); j = min(q for q in range(n) if mc[q] >= s)
        w = 0 if i == j else fractions.Fraction(s - mc[i], mc[j] - mc[i])
        sign = -1 if rev else 1
        for name, c in (("u", 0), ("v", 1)):
            sl = (slice(None), Grid.Ju, Grid.Iu) if c == 0 else (slice(None), Grid.Jv, Grid.Iv)
            exp = frames[i][c][sl] * (1 - w) + frames[j][c][sl] * w
            got = F.fields[name].a
            for a, b in zip(got.ravel(), exp.ravel()):
                nobl += 1
                if E.check(z3.Not((a == b).e)) != z3.unsat:
                    return tuple(mc), ("FAIL", name, s)
    return tuple(mc), nobl
tmp = Path(tempfile.mkdtemp(prefix="sxp"))
try:
    for rev in (False, True):
        for part in ((3,), (2, 1), (1, 2), (1, 1, 1)):
            E.paths = 0; t = time.time(); bad = 0
            try:
                r = E.run(lambda: scenario(tmp, part, rev, 3))
                ok=[x[0] for x in r if not isinstance(x[1], tuple)]; bad=[(x[0], x[1][2]) for x in r if isinstance(x[1], tuple)]
                print(rev, part, "paths", E.paths, "ok", len(ok), "bad", len(bad), "wall", round(time.time() - t, 1)); print("   ok:", ok[:12]); print("   bad:", bad[:12])
            except AssertionError as e:
                print(rev, part, "CEX", str(e).split(":")[0][:120], "wall", round(time.time() - t, 1))
            except Exception as e:
                import traceback; print(rev, part, "EXC", type(e).__name__, str(e)[:150]); traceback.print_exc(limit=3)
finally:
    shutil.rmtree(tmp)
print("queries", E.queries, "solver_s", round(E.t_solver, 1))
