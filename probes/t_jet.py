import sys, time, itertools; sys.path.insert(0,"/tmp/probe")
from sx import *
import sx
P = 4
Z0 = SN.of(0) * SN(z3.RealVal(0)) if False else None
def R0(): return SN(z3.RealVal(0))
class Jet:
    def __init__(s, c): s.c = [SN.of(x) if not isinstance(x, SN) else x for x in c] + [R0() for _ in range(P + 1 - len(c))]
    @staticmethod
    def lift(x): return x if isinstance(x, Jet) else Jet([x])
    def __add__(s, o): o = Jet.lift(o); return Jet([a + b for a, b in zip(s.c, o.c)])
    __radd__ = __add__
    def __sub__(s, o): o = Jet.lift(o); return Jet([a - b for a, b in zip(s.c, o.c)])
    def __rsub__(s, o): return Jet.lift(o) - s
    def __neg__(s): return Jet([-a for a in s.c])
    def __mul__(s, o):
        if isinstance(o, SA): return NotImplemented
        o = Jet.lift(o); r = [R0() for _ in range(P + 1)]
        for i in range(P + 1):
            for j in range(P + 1 - i): r[i + j] = r[i + j] + s.c[i] * o.c[j]
        return Jet(r)
    __rmul__ = __mul__
    def __truediv__(s, o):
        if isinstance(o, SA): return NotImplemented
        assert not isinstance(o, Jet); return Jet([a / o for a in s.c])
    def integ(s): return Jet([R0()] + [s.c[i] / (i + 1) for i in range(P)])
    # comparisons by constant term (interior assumption: never tied)
    def __lt__(s, o): return s.c[0] < Jet.lift(o).c[0]
    def __gt__(s, o): return s.c[0] > Jet.lift(o).c[0]
    def __le__(s, o): return s.c[0] <= Jet.lift(o).c[0]
    def __ge__(s, o): return s.c[0] >= Jet.lift(o).c[0]
    def rint(s): return s.c[0].rint()
sx.Sym.register = None
# let SN defer to Jet
for _n in ("__add__","__radd__","__sub__","__rsub__","__mul__","__rmul__","__truediv__","__lt__","__le__","__gt__","__ge__"):
    f = getattr(SN, _n)
    def mk(f):
        def g(s, o):
            if isinstance(o, Jet): return NotImplemented
            return f(s, o)
        return g
    setattr(SN, _n, mk(f))
_smin, _smax = sx.B["min"], sx.B["max"]
def jmin(a, b):
    if isinstance(a, Jet) or isinstance(b, Jet): return a if bool(Jet.lift(a) <= Jet.lift(b)) else b
    return _smin(a, b)
def jmax(a, b):
    if isinstance(a, Jet) or isinstance(b, Jet): return a if bool(Jet.lift(a) >= Jet.lift(b)) else b
    return _smax(a, b)
sx.B["min"] = jmin; sx.B["max"] = jmax
_lift0 = SA._lift
SA._lift = lambda s: s.a if any(isinstance(x, Jet) for x in s.a.ravel()) else _lift0(s)
SA.round = lambda s: SA(rnp.array([x.rint() if isinstance(x, Jet) else SN.of(x).rint() for x in s.a.ravel()], dtype=object).reshape(s.a.shape), "f")
h = Jet([0, 1])
def mkpoly(name, deg=3):
    co = {(i, j, k): fresh_real(f"{name}_{i}{j}{k}") for i, j, k in itertools.product(range(deg + 1), repeat=3) if i + j + k <= deg}
    def f(x, y, t):
        px = [Jet([1])]; py = [Jet([1])]; pt = [Jet([1])]
        for _ in range(deg): px.append(px[-1] * x); py.append(py[-1] * y); pt.append(pt[-1] * t)
        r = Jet([0])
        for (i, j, k), c in co.items(): r = r + px[i] * py[j] * pt[k] * c
        return r
    return f
trk = load("ladim.tracker"); st = load("ladim.state")
class TimerDt:
    def __truediv__(s, o): return h          # dt "in seconds" is the jet variable
class Timer: dt = TimerDt()
class Grid:
    xmin, xmax, ymin, ymax = 0.0, 20.0, 0.0, 20.0
    def __init__(s, dx): s.dx = dx
    def metric(s, X, Y): return SA([s.dx] * len(X)), SA([s.dx] * len(X))
    def ingrid(s, X, Y): return (X > 0.5) & (X < 19.5) & (Y > 0.5) & (Y < 19.5)
    def atsea(s, X, Y): return SA([True] * len(X), "b")
class Force:
    def __init__(s, U, V, dx): s.U, s.V, s.dx = U, V, dx
    def velocity(s, X, Y, Z, fractional_step=0, method="bilinear"):
        t = h * fractions.Fraction(str(fractional_step))
        return SA([s.U(Jet.lift(x), Jet.lift(y), t) for x, y in zip(X.a, Y.a)]), SA([s.V(Jet.lift(x), Jet.lift(y), t) for x, y in zip(X.a, Y.a)])
def scenario(adv, order):
    U = mkpoly("u"); V = mkpoly("v")
    S = st.State(); dx = fresh_real("dx"); E.assume(dx > 0)
    T = trk.Tracker(advection=adv, modules=dict(state=S, grid=Grid(dx), forcing=Force(U, V, dx), time=Timer))
    x, y = fresh_real("x"), fresh_real("y")
    E.assume(x > 3); E.assume(x < 17); E.assume(y > 3); E.assume(y < 17)
    S.append(X=x, Y=y, Z=5)
    T.update()
    Xn, Yn = Jet.lift(S.X.a[0]), Jet.lift(S.Y.a[0])
    # oracle: Picard iteration for dX/dt = U/dx, dY/dt = V/dx
    ex, ey = Jet([x]), Jet([y])
    for _ in range(P):
        ex, ey = Jet([x]) + (U(ex, ey, h) / dx).integ(), Jet([y]) + (V(ex, ey, h) / dx).integ()
    bad = z3.Or(*[(a != b).e for a, b in zip(Xn.c[:order + 1], ex.c[:order + 1])] + [(a != b).e for a, b in zip(Yn.c[:order + 1], ey.c[:order + 1])])
    t = time.time()
    s2 = z3.Tactic("qfnra-nlsat").solver(); s2.set("timeout", 120000)
    s2.add(*E.pc); s2.add(bad); r = s2.check()
    return adv, order, str(r), round(time.time() - t, 2)
E.solver.set("timeout", 120000)
for adv, order in (("EF", 1), ("EF", 2), ("RK2", 2), ("RK2", 3), ("RK4", 4)):
    t = time.time(); r = E.run(lambda: scenario(adv, order)); print(r, "wall", round(time.time() - t, 1))
