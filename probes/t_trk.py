import sys; sys.path.insert(0,"/tmp/probe")
from sx import *
import sx, time
trk = load("ladim.tracker"); st = load("ladim.state")
class Timer: dt = np_timedelta64(600, "s")
class Grid:
    xmin, xmax, ymin, ymax = 0.0, 9.0, 0.0, 9.0
    def __init__(s, dx): s.dx = dx
    def metric(s, X, Y): return SA([s.dx]*len(X)), SA([s.dx]*len(X))
    def ingrid(s, X, Y): return (X > 0.5) & (X < 8.5) & (Y > 0.5) & (Y < 8.5)
    def atsea(s, X, Y): return SA([True]*len(X), "b")
    def depth(s, X, Y): return SA([50.0]*len(X))
class Force:
    def __init__(s): s.calls = []
    def velocity(s, X, Y, Z, fractional_step=0, method="bilinear"):
        n = len(s.calls)
        U = SA([fresh_real(f"U{n}_{p}") for p in range(len(X))]); V = SA([fresh_real(f"V{n}_{p}") for p in range(len(X))])
        s.calls.append((X.copy(), Y.copy(), fractional_step, U, V)); return U, V
def scenario(adv):
    S = st.State(); dx = fresh_real("dx"); E.assume(dx > 0)
    g = Grid(dx); f = Force()
    T = trk.Tracker(advection=adv, modules=dict(state=S, grid=g, forcing=f, time=Timer))
    x, y = fresh_real("x"), fresh_real("y")
    E.assume(x > 2); E.assume(x < 7); E.assume(y > 2); E.assume(y < 7)
    S.append(X=x, Y=y, Z=5.0)
    T.update()
    out = []
    for (X, Y, frac, U, V) in f.calls: out.append((z3.simplify((X.a[0] - x).e), frac))
    return adv, out, z3.simplify((S.X.a[0] - x).e), bool(S.alive.a[0])
for adv in ("EF", "RK2", "RK4"):
    E.paths = 0
    r = E.run(lambda: scenario(adv))
    print(adv, "paths", E.paths)
    print("   ", r[0][1], "\n    dX =", r[0][2], r[0][3])
