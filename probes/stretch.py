import z3,time,itertools
sinh=z3.Function("sinh",z3.RealSort(),z3.RealSort())
tanh=z3.Function("tanh",z3.RealSort(),z3.RealSort())
ts,tb=z3.Reals("theta_s theta_b")
def run(N,stagger):
    if stagger=="rho": S=[-1+(z3.RealVal("1/2")+k)/N for k in range(N)]
    else: S=[z3.RealVal(-1)+z3.RealVal(k)/N for k in range(N+1)]
    args_s=[ts]+[ts*s for s in S]
    args_t=[z3.RealVal("1/2")*ts]+[ts*(s+z3.RealVal("1/2")) for s in S]
    cff1=1/sinh(ts); cff2=z3.RealVal("1/2")/tanh(z3.RealVal("1/2")*ts)
    C=[(1-tb)*cff1*sinh(ts*s)+tb*(cff2*tanh(ts*(s+z3.RealVal("1/2")))-z3.RealVal("1/2")) for s in S]
    ax=[]
    for f,args in ((sinh,args_s),(tanh,args_t)):
        allargs=args+[-a for a in args]+[z3.RealVal(0)]
        for a,b in itertools.combinations(allargs,2):
            ax.append(z3.Implies(a<b,f(a)<f(b))); ax.append(z3.Implies(b<a,f(b)<f(a))); ax.append(z3.Implies(a==b,f(a)==f(b)))
        for a in args: ax.append(f(-a)==-f(a))
        ax.append(f(0)==0)
    s=z3.Solver(); s.set("timeout",60000)
    s.add(ts>0,ts<=10,tb>=0,tb<=1,*ax)
    bad=[C[k+1]<=C[k] for k in range(len(C)-1)]+[C[0]<-1,C[-1]>0]
    if stagger=="w": bad+= [C[0]!=-1,C[-1]!=0]
    s.add(z3.Or(*bad))
    t=time.time(); r=s.check(); print(N,stagger,r,round(time.time()-t,2))
for N in (1,2,3,4):
    for st in ("rho","w"): run(N,st)
# vacuity: axioms sat?
import sys
def run2(N,bug):
    S=[z3.RealVal(-1)+z3.RealVal(k)/N for k in range(N+1)]
    half=z3.RealVal("1/2")
    args_s=[ts]+[ts*s for s in S]; args_t=[half*ts]+[ts*(s+half) for s in S]
    cff1=1/sinh(ts); cff2=(half*tanh(half*ts)) if bug else half/tanh(half*ts)
    C=[(1-tb)*cff1*sinh(ts*s)+tb*(cff2*tanh(ts*(s+half))-half) for s in S]
    ax=[]
    for f,args in ((sinh,args_s),(tanh,args_t)):
        allargs=args+[-a for a in args]+[z3.RealVal(0)]
        for a,b in itertools.combinations(allargs,2):
            ax.append(z3.Implies(a<b,f(a)<f(b))); ax.append(z3.Implies(b<a,f(b)<f(a))); ax.append(z3.Implies(a==b,f(a)==f(b)))
        for a in args: ax.append(f(-a)==-f(a))
        ax.append(f(0)==0)
    s=z3.Solver(); s.set("timeout",60000); s.add(ts>0,ts<=10,tb>=0,tb<=1,*ax)
    print("axioms",s.check())
    s.add(z3.Or(*[C[k+1]<=C[k] for k in range(N)]+[C[0]!=-1,C[-1]!=0]))
    t=time.time(); print("bug" if bug else "ok",s.check(),round(time.time()-t,2))
run2(3,False); run2(3,True)
