import sys; sys.path.insert(0,"/tmp/probe")
from sx import *
def sc():
    m=[fresh_int(f"m{i}") for i in range(3)]
    for i in range(2): E.assume(m[i]<m[i+1]); E.assume(m[i+1]-m[i]<=3)
    E.assume(m[0]>=-3); E.assume(m[0]<=0); E.assume(m[-1]>=3); E.assume(m[-1]<=6)
    steps=[x for x in m]
    d={}
    for i,x in enumerate(steps): d[x]=i
    return tuple(SN.of(x).__index__() for x in m)
r=E.run(sc); print(len(r), len(set(r)), sorted(set(r)))
