import z3, time, itertools
P=4  # truncate above h^P
class Jet:
    def __init__(s,c): s.c=list(c)+[z3.RealVal(0)]*(P+1-len(c))
    @staticmethod
    def lift(x): return x if isinstance(x,Jet) else Jet([x if z3.is_expr(x) else z3.RealVal(x)])
    def __add__(s,o): o=Jet.lift(o); return Jet([a+b for a,b in zip(s.c,o.c)])
    __radd__=__add__
    def __sub__(s,o): o=Jet.lift(o); return Jet([a-b for a,b in zip(s.c,o.c)])
    def __rsub__(s,o): return Jet.lift(o)-s
    def __mul__(s,o):
        o=Jet.lift(o); r=[z3.RealVal(0)]*(P+1)
        for i in range(P+1):
            for j in range(P+1-i):
                r[i+j]=r[i+j]+s.c[i]*o.c[j]
        return Jet(r)
    __rmul__=__mul__
    def __truediv__(s,k): return Jet([a/k for a in s.c])
    def integ(s): return Jet([z3.RealVal(0)]+[s.c[i]/(i+1) for i in range(P)])
h=Jet([0,1])
# 2D field polynomial deg<=3 in x,y,t
def mkpoly(name,deg=3):
    co={}
    for i,j,k in itertools.product(range(deg+1),repeat=3):
        if i+j+k<=deg: co[(i,j,k)]=z3.Real(f"{name}_{i}{j}{k}")
    def f(x,y,t):
        r=Jet.lift(0)
        px=[Jet.lift(1)];py=[Jet.lift(1)];pt=[Jet.lift(1)]
        for _ in range(deg): px.append(px[-1]*x);py.append(py[-1]*y);pt.append(pt[-1]*t)
        for (i,j,k),c in co.items(): r=r+px[i]*py[j]*pt[k]*c
        return r
    return f
U=mkpoly("u");V=mkpoly("v")
x0,y0=z3.Reals("x0 y0")
def rk4(x,y):
    k1=(U(x,y,0*h),V(x,y,0*h))
    x1,y1=x+0.5*h*k1[0],y+0.5*h*k1[1]
    k2=(U(x1,y1,0.5*h),V(x1,y1,0.5*h))
    x2,y2=x+0.5*h*k2[0],y+0.5*h*k2[1]
    k3=(U(x2,y2,0.5*h),V(x2,y2,0.5*h))
    x3,y3=x+h*k3[0],y+h*k3[1]
    k4=(U(x3,y3,h),V(x3,y3,h))
    return x+h*((k1[0]+2*k2[0]+2*k3[0]+k4[0])/6), y+h*((k1[1]+2*k2[1]+2*k3[1]+k4[1])/6)
t0=time.time()
X,Y=rk4(Jet.lift(x0),Jet.lift(y0))
# exact by Picard
ex,ey=Jet.lift(x0),Jet.lift(y0)
for _ in range(P):
    fx,fy=U(ex,ey,h),V(ex,ey,h)
    ex,ey=Jet.lift(x0)+fx.integ(),Jet.lift(y0)+fy.integ()
print("built",time.time()-t0)
s=z3.Solver()
s.add(z3.Or(*[a!=b for a,b in zip(X.c,ex.c)]+[a!=b for a,b in zip(Y.c,ey.c)]))
t0=time.time();print(s.check(),time.time()-t0)
