import sys, time; sys.path.insert(0,"/tmp/probe")
from sx import *
import sx
symnp.zeros_like = lambda x: SA(rnp.full(SA.un(x).shape, 0, dtype=object), getattr(x, "kind", "f"))
symnp.asarray = lambda x, dtype=None: x if isinstance(x, SA) else SA(rnp.asarray(x, dtype=object))
def np_all(a):
    r = SB.of(True)
    for x in SA.un(a).ravel(): r = r & SB.of(x)
    return r
symnp.all = np_all
SA.__pow__ = lambda s, k: SA(rnp.array([x * x for x in s.a.ravel()], dtype=object).reshape(s.a.shape)) if k == 2 else NotImplemented
SA.__isub__ = lambda s, o: (s.a.__setitem__(Ellipsis, (s - o).a), s)[1]
_ast = SA.astype
SA.astype = lambda s, t: _ast(s, "i" if t in ("i", "int", int) else t)
symnp.add = lambda a, b: a + b
symnp.ndim = lambda a: SA.un(a).ndim if isinstance(a, SA) else rnp.ndim(a)
def np_where(c, a, b):
    c = SA.un(c) if isinstance(c, SA) else c
    if isinstance(c, (SB, bool)):
        c = rnp.array(c, dtype=object)
    a = rnp.asarray(SA.un(a), dtype=object); b = rnp.asarray(SA.un(b), dtype=object)
    c, a, b = rnp.broadcast_arrays(rnp.asarray(c, dtype=object), a, b)
    out = rnp.empty(c.shape, dtype=object)
    for idx in rnp.ndindex(c.shape):
        cc = SB.of(c[idx]) if not isinstance(c[idx], SN) else SB.of(c[idx].e != 0)
        x, y = a[idx], b[idx]
        if isinstance(x, (SB, bool)) or isinstance(y, (SB, bool)): out[idx] = SB(z3.If(cc.e, SB.of(x).e, SB.of(y).e))
        else:
            p, q = SN.of(x)._co(SN.of(y)); out[idx] = SN(z3.If(cc.e, p, q))
    return SA(out)
symnp.where = np_where
SA.__or__ = lambda s, o: SA(rnp.array([SB.of(x) | SB.of(y) for x, y in zip(s.a.ravel(), SA.un(o).ravel())], dtype=object).reshape(s.a.shape), "b")
SA.__eq__ = lambda s, o: s._cmp(o, rnp.equal)
SA.__hash__ = None
sm = load("ladim.sample")
def scen_sym(n):
    a0, a1, a2, b0, b1, b2 = [fresh_real(k) for k in "a0 a1 a2 b0 b1 b2".split()]
    E.assume((a1 * b2 - a2 * b1) != 0)
    lon = SA(rnp.array([[a0 + a1 * i + a2 * j for i in range(n)] for j in range(n)], dtype=object))
    lat = SA(rnp.array([[b0 + b1 * i + b2 * j for i in range(n)] for j in range(n)], dtype=object))
    x, y = fresh_real("x"), fresh_real("y")
    f = SA([a0 + a1 * x + a2 * y]); g = SA([b0 + b1 * x + b2 * y])
    c = 0.5 * n
    r0x = a0 + a1 * c + a2 * c - f.a[0]; r0y = b0 + b1 * c + b2 * c - g.a[0]
    E.assume(r0x * r0x + r0y * r0y >= 1.0e-7)
    Yr, Xr = sm.bilin_inv(f, g, lon, lat, maxiter=1)
    E.prove(Xr.a[0] == x, "one-step x"); E.prove(Yr.a[0] == y, "one-step y")
    return "ok"
from fractions import Fraction as Fr
GRIDS = [(10, 1, 0, 60, 0, 1), (10, Fr(3,50), Fr(-4,50), 60, Fr(4,100), Fr(3,100)), (5, Fr(-1,10), Fr(1,20), 58, Fr(1,40), Fr(1,25)), (0, 0, Fr(1,8), 0, Fr(-1,8), 0)]
def scen_conc(n, gi):
    a0, a1, a2, b0, b1, b2 = GRIDS[gi]
    lon = SA(rnp.array([[a0 + a1 * i + a2 * j for i in range(n)] for j in range(n)], dtype=object))
    lat = SA(rnp.array([[b0 + b1 * i + b2 * j for i in range(n)] for j in range(n)], dtype=object))
    x, y = fresh_real("x"), fresh_real("y")
    E.assume(x > 0.5); E.assume(x < n - 1.5); E.assume(y > 0.5); E.assume(y < n - 1.5)
    X, Y = SA([x]), SA([y])
    lo = sm.sample2D(lon, X, Y); la = sm.sample2D(lat, X, Y)
    Yr, Xr = sm.bilin_inv(lo, la, lon, lat)
    ex = lambda v: Fr(repr(v)) if isinstance(v, float) else v
    xr, yr = ex(Xr.a[0]), ex(Yr.a[0])
    rx = a0 + a1 * xr + a2 * yr - lo.a[0]; ry = b0 + b1 * xr + b2 * yr - la.a[0]
    E.prove(rx * rx + ry * ry < Fr(1, 10**7), "residual < tol")
    c = Fr(n, 2)
    r0x = a0 + a1 * c + a2 * c - lo.a[0]; r0y = b0 + b1 * c + b2 * c - la.a[0]
    if bool(r0x * r0x + r0y * r0y >= Fr(1, 10**7)):
        E.prove(SN.of(xr) == x, "roundtrip x"); E.prove(SN.of(yr) == y, "roundtrip y"); return "exact"
    return "within-tol-of-centre"
def rv2(x):
    if isinstance(x, Fr): return z3.RealVal(str(x))
    return _rv(x)
_rv = sx.rv; sx.rv = rv2
E.solver.set("timeout", 30000)
import collections
t = time.time(); E.paths = 0
try:
    r = E.run(lambda: scen_sym(4)); print("symbolic-coefficient one-step:", collections.Counter(r), round(time.time() - t, 1))
except BaseException as e: print("sym EXC", type(e).__name__, str(e)[:200])
for n in (4, 5):
    for gi in range(len(GRIDS)):
        t = time.time()
        try:
            r = E.run(lambda: scen_conc(n, gi)); print("n", n, "grid", gi, dict(collections.Counter(r)), round(time.time() - t, 1))
        except BaseException as e: print("n", n, "grid", gi, "EXC", type(e).__name__, str(e)[:300])
