"""Throwaway prototype: shadow-load ladim modules over a symbolic numpy + path explorer."""
import builtins, types, sys, time, fractions, itertools
import numpy as rnp
import z3

# ---------------- engine ----------------
class Abort(BaseException): pass
class Unsupported(BaseException): pass

class Engine:
    def __init__(s):
        s.solver = z3.Solver(); s.queries = 0; s.t_solver = 0.0
        s.script = []; s.pos = 0; s.pending = []; s.pc = []; s.paths = 0
        s.fresh = 0
    def check(s, *extra):
        s.queries += 1; t = time.time()
        r = s.solver.check(*extra); s.t_solver += time.time() - t
        return r
    def assume(s, c):
        c = SB.of(c).e
        s.solver.add(c); s.pc.append(c)
        if s.check() != z3.sat: raise Abort()
    def fork(s, cond):  # cond z3 bool
        cond = z3.simplify(cond)
        if z3.is_true(cond): return True
        if z3.is_false(cond): return False
        if s.pos < len(s.script):
            d = s.script[s.pos]; s.pos += 1
        else:
            can_t = s.check(cond) == z3.sat
            can_f = s.check(z3.Not(cond)) == z3.sat
            if can_t and can_f:
                s.pending.append(s.script[:s.pos] + [False]); d = True
            elif can_t: d = True
            elif can_f: d = False
            else: raise Abort()
            s.script.append(d); s.pos += 1
        s.solver.add(cond if d else z3.Not(cond)); s.pc.append(cond if d else z3.Not(cond))
        return d
    def concretize(s, e):  # z3 int expr -> python int, forking over values
        e = z3.simplify(e)
        if z3.is_int_value(e): return e.as_long()
        while True:
            if s.check() != z3.sat: raise Abort()
            v = s.solver.model().eval(e, model_completion=True).as_long()
            if s.fork(e == v): return v
    def run(s, fn, maxpaths=10000):
        s.pending = [[]]; results = []
        while s.pending:
            s.script = s.pending.pop(); s.pos = 0; s.pc = []
            s.solver.push()
            try:
                results.append(fn()); s.paths += 1
            except Abort: pass
            finally: s.solver.pop()
            if s.paths > maxpaths: raise RuntimeError("path budget")
        return results
    def prove(s, claim, what=""):
        claim = SB.of(claim).e
        r = s.check(z3.Not(claim))
        if r == z3.unsat: return True
        if r == z3.sat:
            raise AssertionError(f"CEX {what}: {s.solver.model()}")
        raise RuntimeError("unknown")

E = Engine()

def rv(x):
    if isinstance(x, bool): raise TypeError
    if isinstance(x, (int, rnp.integer)): return z3.RealVal(int(x))
    if isinstance(x, (float, rnp.floating)): return z3.RealVal(repr(float(x)))
    if isinstance(x, fractions.Fraction): return z3.RealVal(str(x))
    raise TypeError(type(x))

class Sym: pass

class SB(Sym):
    def __init__(s, e): s.e = e
    @staticmethod
    def of(x):
        if isinstance(x, SB): return x
        if isinstance(x, (bool, rnp.bool_)): return SB(z3.BoolVal(bool(x)))
        if z3.is_expr(x): return SB(x)
        raise TypeError(type(x))
    def __bool__(s): return E.fork(s.e)
    def __invert__(s): return SB(z3.Not(s.e))
    def __and__(s, o): return SB(z3.And(s.e, SB.of(o).e))
    __rand__ = __and__
    def __or__(s, o): return SB(z3.Or(s.e, SB.of(o).e))
    __ror__ = __or__
    def __eq__(s, o): return SB(s.e == SB.of(o).e)
    def __ne__(s, o): return SB(s.e != SB.of(o).e)
    __hash__ = None
    def __repr__(s): return f"SB({z3.simplify(s.e)})"

class SN(Sym):
    """number: real or int sort"""
    def __init__(s, e): s.e = e
    @property
    def isint(s): return s.e.sort() == z3.IntSort()
    @staticmethod
    def of(x):
        if isinstance(x, SN): return x
        if isinstance(x, (bool, rnp.bool_)): return SN(z3.IntVal(int(x)))
        if isinstance(x, (int, rnp.integer)): return SN(z3.IntVal(int(x)))
        if isinstance(x, SB): return SN(z3.If(x.e, 1, 0))
        return SN(rv(x))
    def _co(s, o):
        o = SN.of(o); a, b = s.e, o.e
        if s.isint != o.isint:
            if s.isint: a = z3.ToReal(a)
            else: b = z3.ToReal(b)
        return a, b
    def __add__(s, o): a, b = s._co(o); return SN(a + b)
    __radd__ = __add__
    def __sub__(s, o): a, b = s._co(o); return SN(a - b)
    def __rsub__(s, o): a, b = s._co(o); return SN(b - a)
    def __mul__(s, o): a, b = s._co(o); return SN(a * b)
    __rmul__ = __mul__
    def __neg__(s): return SN(-s.e)
    def __truediv__(s, o):
        a, b = s._co(o)
        if a.sort() == z3.IntSort(): a, b = z3.ToReal(a), z3.ToReal(b)
        E.prove(b != 0, "div by zero") if False else None
        return SN(a / b)
    def __rtruediv__(s, o): return SN.of(o).__truediv__(s)
    def __floordiv__(s, o):
        a, b = s._co(o)
        if a.sort() == z3.IntSort():
            # python floor div; z3 div is euclidean: for b>0 same as floor
            if E.fork(b > 0): return SN(a / b)
            return SN(-((-a) / (-b))) if False else SN(z3.If(a % b == 0, a / b, a / b - 1 + 0) ) # placeholder
        return SN(z3.ToReal(z3.ToInt(a / b)))
    def __mod__(s, o):
        a, b = s._co(o)
        assert a.sort() == z3.IntSort()
        if E.fork(b > 0): return SN(a % b)
        raise Unsupported("mod by nonpositive")
    def __lt__(s, o): a, b = s._co(o); return SB(a < b)
    def __le__(s, o): a, b = s._co(o); return SB(a <= b)
    def __gt__(s, o): a, b = s._co(o); return SB(a > b)
    def __ge__(s, o): a, b = s._co(o); return SB(a >= b)
    def __eq__(s, o):
        try: a, b = s._co(o)
        except TypeError: return False
        return SB(a == b)
    def __ne__(s, o): a, b = s._co(o); return SB(a != b)
    def __hash__(s): return hash(E.concretize(s.e)) if s.isint else (_ for _ in ()).throw(Unsupported("hash real"))
    def __index__(s):
        if not s.isint: raise TypeError("real index")
        return E.concretize(s.e)
    def __abs__(s): return SN(z3.If(s.e >= 0, s.e, -s.e))
    def trunc(s):
        if s.isint: return s
        return SN(z3.If(s.e >= 0, z3.ToInt(s.e), -z3.ToInt(-s.e)))
    def rint(s):  # round half even
        if s.isint: return s
        f = z3.ToInt(s.e); r = s.e - z3.ToReal(f)
        return SN(z3.ToReal(z3.If(r < 0.5, f, z3.If(r > 0.5, f + 1, z3.If(f % 2 == 0, f, f + 1)))))
    def __bool__(s): return E.fork(s.e != 0)
    def __repr__(s): return f"SN({z3.simplify(s.e)})"

def is_sym(x): return isinstance(x, Sym)

# ---------------- symbolic ndarray (wrapper around object arrays) ----------------
class SA:
    def __init__(s, a, kind="f"):
        s.a = rnp.asarray(a, dtype=object); s.kind = kind
    shape = property(lambda s: s.a.shape); ndim = property(lambda s: s.a.ndim); size = property(lambda s: s.a.size)
    def __len__(s): return len(s.a)
    def __iter__(s): return iter(s.a)
    @staticmethod
    def un(x): return x.a if isinstance(x, SA) else x
    def _key(s, k):
        if isinstance(k, tuple): return tuple(s._key1(x) for x in k)
        return s._key1(k)
    def _key1(s, k):
        if isinstance(k, SA):
            if k.kind == "b": return rnp.array([bool(x) for x in k.a.ravel()]).reshape(k.a.shape)
            return rnp.array([E.concretize(SN.of(x).e) if is_sym(x) else int(x) for x in k.a.ravel()]).reshape(k.a.shape)
        if isinstance(k, SN): return k.__index__()
        return k
    def __getitem__(s, k):
        r = s.a[s._key(k)]
        return SA(r, s.kind) if isinstance(r, rnp.ndarray) else r
    def __setitem__(s, k, v):
        s.a[s._key(k)] = SA.un(v)
    def _bin(s, o, f, kind=None):
        return SA(f(s.a, SA.un(o)), kind or s.kind)
    def __add__(s, o): return s._bin(o, rnp.add)
    def __radd__(s, o): return s._bin(o, lambda a, b: rnp.add(b, a))
    def __sub__(s, o): return s._bin(o, rnp.subtract)
    def __rsub__(s, o): return s._bin(o, lambda a, b: rnp.subtract(b, a))
    def __mul__(s, o): return s._bin(o, rnp.multiply, "f" if s.kind == "b" else None)
    def __rmul__(s, o): return s._bin(o, lambda a, b: rnp.multiply(b, a))
    def __truediv__(s, o): return s._bin(o, rnp.true_divide, "f")
    def __rtruediv__(s, o): return s._bin(o, lambda a, b: rnp.true_divide(b, a), "f")
    def __neg__(s): return SA(-s.a, s.kind)
    def __iadd__(s, o): s.a[...] = (s + o).a; return s
    def __imul__(s, o): s.a[...] = (s * o).a; return s
    def _cmp(s, o, f): return SA(f(s._lift(), SA.un(o), dtype=object), "b")
    def _lift(s):
        return rnp.array([x if is_sym(x) else SN.of(x) for x in s.a.ravel()], dtype=object).reshape(s.a.shape) if s.kind != "b" else s.a
    def __lt__(s, o): return s._cmp(o, rnp.less)
    def __le__(s, o): return s._cmp(o, rnp.less_equal)
    def __gt__(s, o): return s._cmp(o, rnp.greater)
    def __ge__(s, o): return s._cmp(o, rnp.greater_equal)
    def __invert__(s): return SA(rnp.array([~SB.of(x) for x in s.a.ravel()], dtype=object).reshape(s.a.shape), "b")
    def __and__(s, o): return SA(rnp.array([SB.of(x) & SB.of(y) for x, y in zip(s.a.ravel(), SA.un(o).ravel())], dtype=object).reshape(s.a.shape), "b")
    def copy(s): return SA(s.a.copy(), s.kind)
    def round(s): return SA(rnp.array([SN.of(x).rint() for x in s.a.ravel()], dtype=object).reshape(s.a.shape), "f")
    def astype(s, t):
        if t in (int, "int", "i"): return SA(rnp.array([SN.of(x).trunc() for x in s.a.ravel()], dtype=object).reshape(s.a.shape), "i")
        return SA(s.a.copy(), "f")
    def __repr__(s): return f"SA<{s.kind}>({s.a.tolist()})"

def np_concatenate(seq):
    seq = list(seq); return SA(rnp.concatenate([SA.un(x) if isinstance(x, SA) else rnp.asarray(x, dtype=object) for x in seq]), next((x.kind for x in seq if isinstance(x, SA)), "f"))
def np_searchsorted(arr, v):
    # left insertion point = number of elements < v (arr sorted)
    v = SN.of(v); n = SN.of(0)
    for x in SA.un(arr): n = n + SN.of(SN.of(x) < v)
    return n

symnp = types.ModuleType("numpy")
symnp.ndarray = SA
symnp.nan = float("nan")
symnp.int64 = "i"; symnp.float64 = "f"
symnp.array = lambda x, dtype=None: SA(rnp.array(SA.un(x), dtype=object), {bool: "b", int: "i"}.get(dtype, "f"))
symnp.asarray = lambda x, dtype=None: x if isinstance(x, SA) else SA(x)
symnp.zeros_like = lambda x: SA(rnp.full(x.shape, 0, dtype=object), x.kind)
symnp.ones = lambda n, dtype=None: SA(rnp.full(n, 1, dtype=object), "i" if dtype == "i" else "f")
symnp.empty = lambda n, dtype=None: SA(rnp.full(n, None, dtype=object), "f")
symnp.isscalar = lambda x: rnp.isscalar(x) or isinstance(x, Sym)
symnp.concatenate = np_concatenate
symnp.searchsorted = np_searchsorted
symnp.arange = lambda a, b=None, dtype=None: SA(rnp.arange(int(a), None if b is None else int(b)).astype(object), "i")
symnp.around = lambda x: x.round()
symnp.dtype = rnp.dtype
class _Bc:
    def __init__(s, *vals):
        shapes = [SA.un(v).shape if isinstance(v, SA) else rnp.shape(v) if not is_sym(v) else () for v in vals]
        b = rnp.broadcast_shapes(*shapes); s.ndim = len(b); s.size = int(rnp.prod(b)) if b else 1
symnp.broadcast = _Bc
symnp.broadcast_to = lambda v, shape: SA(rnp.broadcast_to(rnp.asarray(SA.un(v), dtype=object), shape), v.kind if isinstance(v, SA) else ("b" if isinstance(v, (bool, SB)) else "f"))
class _TD:  # timedelta seconds
    pass
def np_timedelta64(v, unit="s"):
    mult = dict(s=1, m=60, h=3600, D=86400)[unit]
    if isinstance(v, TD): return v
    return TD(SN.of(v) * mult if is_sym(v) else int(v) * mult)
class TD:
    def __init__(s, sec): s.sec = sec
    def __truediv__(s, o): return SN.of(s.sec) / SN.of(o.sec) if isinstance(o, TD) else TD(s.sec / o)
symnp.timedelta64 = np_timedelta64
symnp.random = types.SimpleNamespace(default_rng=lambda: None)
import typing as _t
symnp.typing = types.SimpleNamespace(NDArray=_t.List, DTypeLike=_t.Any, ArrayLike=_t.Any)
sys.modules.setdefault("numpy.typing", rnp.typing if hasattr(rnp,"typing") else None)

numba = types.ModuleType("numba")
numba.njit = lambda *a, **k: (lambda f: f)
numba.prange = range

# ---------------- patched builtins / loader ----------------
def s_min(*a):
    if len(a) == 2 and any(is_sym(x) for x in a):
        x, y = SN.of(a[0]), SN.of(a[1]); p, q = x._co(y); return SN(z3.If(p <= q, p, q))
    return builtins.min(*a)
def s_max(*a):
    if len(a) == 2 and any(is_sym(x) for x in a):
        x, y = SN.of(a[0]), SN.of(a[1]); p, q = x._co(y); return SN(z3.If(p >= q, p, q))
    return builtins.max(*a)
def s_int(x=0, *a):
    if isinstance(x, SN): return x.trunc()
    return builtins.int(x, *a)
def s_float(x=0.0):
    if isinstance(x, SN): return x
    return builtins.float(x)
def s_sum(it, start=0):
    r = start
    for x in it: r = r + (SN.of(x) if isinstance(x, SB) else x)
    return r
def s_range(*a):
    return builtins.range(*[x.__index__() if isinstance(x, SN) else x for x in a])
def s_isinstance(o, t):
    if isinstance(o, SN):
        ts = t if isinstance(t, tuple) else (t,)
        if (o.isint and builtins.int in ts) or (not o.isint and builtins.float in ts): return True
    return builtins.isinstance(o, t)

SHADOW = {}
real_import = builtins.__import__
def my_import(name, globals=None, locals=None, fromlist=(), level=0):
    if name == "numpy" or name.startswith("numpy."): return symnp
    if name == "numba": return numba
    if name.startswith("ladim"):
        top = load("ladim") if False else None
        mod = load(name)
        if fromlist: return mod
        return SHADOW.get("ladim_pkg") or types.SimpleNamespace(**{name.split(".")[1]: mod})
    return real_import(name, globals, locals, fromlist, level)
B = dict(vars(builtins))
B.update(__import__=my_import, min=s_min, max=s_max, int=s_int, float=s_float, sum=s_sum, range=s_range, isinstance=s_isinstance)
def load(name):
    if name in SHADOW: return SHADOW[name]
    path = __import__("os").environ.get("SXREPO", "/repo") + "/" + name.replace(".", "/") + ".py"
    mod = types.ModuleType("shadow_" + name); mod.__dict__["__builtins__"] = B; mod.__file__ = path
    SHADOW[name] = mod
    exec(compile(open(path).read(), path, "exec"), mod.__dict__)
    return mod

def fresh_real(name): return SN(z3.Real(name))
def fresh_int(name): return SN(z3.Int(name))
def fresh_bool(name): return SB(z3.Bool(name))

# make SN ops defer to SA
def _defer(name):
    f = getattr(SN, name)
    def g(s, o):
        if isinstance(o, SA): return NotImplemented
        return f(s, o)
    setattr(SN, name, g)
for _n in ("__add__","__radd__","__sub__","__rsub__","__mul__","__rmul__","__truediv__","__rtruediv__","__lt__","__le__","__gt__","__ge__"):
    _defer(_n)

# ---------------- datetime / timedelta shim (Int seconds) ----------------
import datetime as _dtm
_UNIT = {}
_EPOCH = rnp.datetime64("1970-01-01T00:00:00", "s")
for _u in ("s", "m", "h", "D"):
    _UNIT[_u] = int(rnp.timedelta64(1, _u) / rnp.timedelta64(1, "s"))
_UNIT["d"] = None
def _sec(x): return x if isinstance(x, SN) else SN.of(int(x))
class TD:
    def __init__(s, v=0, unit="s"):
        if isinstance(v, TD): s.sec = v.sec; return
        if isinstance(v, (rnp.timedelta64, _dtm.timedelta)): s.sec = _sec(int(rnp.timedelta64(v, "s") / rnp.timedelta64(1, "s"))); return
        if unit not in _UNIT or _UNIT[unit] is None: rnp.timedelta64(1, unit)
        s.sec = _sec(v) * _UNIT[unit]
    def __add__(s, o):
        if isinstance(o, DT): return DT(o.sec + s.sec)
        return TD(s.sec + o.sec)
    def __sub__(s, o): return TD(s.sec - o.sec)
    def __neg__(s): return TD(-s.sec)
    def __abs__(s): return TD(abs(s.sec))
    def __mul__(s, k): return TD(s.sec * k)
    __rmul__ = __mul__
    def __truediv__(s, o):
        if isinstance(o, TD): return s.sec / o.sec
        return TD(s.sec / o)
    def __floordiv__(s, o):
        a, b = s.sec.e, o.sec.e
        if not E.fork(b > 0):
            a, b = -a, -b       # floor(a/b) == floor(-a/-b)
        return SN(a / b)        # z3 int div is floor for positive divisor
    def __lt__(s, o): return s.sec < o.sec
    def __le__(s, o): return s.sec <= o.sec
    def __gt__(s, o): return s.sec > o.sec
    def __ge__(s, o): return s.sec >= o.sec
    def __eq__(s, o): return s.sec == o.sec if isinstance(o, TD) else False
    def __ne__(s, o): return s.sec != o.sec
    __hash__ = None
    def __bool__(s): return bool(s.sec != 0)
    def __repr__(s): return f"TD({s.sec})"
class DT:
    def __init__(s, x, unit=None):
        if isinstance(x, DT): s.sec = x.sec
        elif isinstance(x, SN): s.sec = x
        elif isinstance(x, int): s.sec = _sec(x)
        else: s.sec = _sec(int((rnp.datetime64(x, "s") - _EPOCH) / rnp.timedelta64(1, "s")))
    def __add__(s, o): return DT(s.sec + o.sec)
    __radd__ = __add__
    def __sub__(s, o):
        if isinstance(o, DT): return TD(s.sec - o.sec)
        return DT(s.sec - o.sec)
    def __lt__(s, o): return s.sec < o.sec
    def __le__(s, o): return s.sec <= o.sec
    def __gt__(s, o): return s.sec > o.sec
    def __ge__(s, o): return s.sec >= o.sec
    def __eq__(s, o): return s.sec == o.sec if isinstance(o, DT) else False
    def __ne__(s, o): return s.sec != o.sec
    __hash__ = None
    def __bool__(s): return True
    def astype(s, t): return s
    def __repr__(s): return f"DT({s.sec})"
def np_datetime64(x, unit=None):
    if isinstance(x, DT): return x
    if isinstance(x, SN): return DT(x)
    return DT(int((rnp.datetime64(x, "s") - _EPOCH) / rnp.timedelta64(1, "s")))
def np_timedelta64(v=0, unit="s"):
    if isinstance(v, TD): return v
    if isinstance(v, (rnp.timedelta64, _dtm.timedelta)): return TD(int(rnp.timedelta64(v, "s") / rnp.timedelta64(1, "s")))
    if unit not in _UNIT or _UNIT[unit] is None: rnp.timedelta64(1, unit)  # raises like numpy
    return TD(_sec(v) * _UNIT[unit])
symnp.datetime64 = DT
symnp.timedelta64 = TD
np_timedelta64 = TD
def np_diff(a):
    a = SA.un(a) if isinstance(a, SA) else list(a)
    return SA([a[i+1] - a[i] for i in range(len(a) - 1)], "i")
symnp.diff = np_diff
def np_any(a): 
    r = SB.of(False)
    for x in SA.un(a).ravel(): r = r | SB.of(x)
    return r
symnp.any = np_any
symnp.float32 = lambda x: x
def np_multiply(a, b, out=None):
    r = a * b
    if out is not None: out.a[...] = r.a; return out
    return r
symnp.multiply = np_multiply
_s_isinstance0 = s_isinstance
def s_isinstance2(o, t):
    return _s_isinstance0(o, t)
B["isinstance"] = s_isinstance2
def s_abs(x): return x.__abs__() if isinstance(x, (SN, TD)) else builtins.abs(x)
B["abs"] = s_abs
import logging as _lg; _lg.disable(_lg.CRITICAL)

# builtins that are used in type expressions must stay types
class _IntMeta(type):
    def __instancecheck__(cls, o): return builtins.isinstance(o, builtins.int) or (builtins.isinstance(o, SN) and o.isint)
class s_int_t(builtins.int, metaclass=_IntMeta):
    def __new__(cls, x=0, *a):
        if builtins.isinstance(x, SN): return x.trunc()
        return builtins.int(x, *a)
class _FloatMeta(type):
    def __instancecheck__(cls, o): return builtins.isinstance(o, builtins.float) or (builtins.isinstance(o, SN) and not o.isint)
class s_float_t(builtins.float, metaclass=_FloatMeta):
    def __new__(cls, x=0.0):
        if builtins.isinstance(x, SN): return x
        return builtins.float(x)
B["int"] = s_int_t; B["float"] = s_float_t; B["isinstance"] = builtins.isinstance
import numbers as _nb
def _defer2(name):
    f = getattr(SN, name)
    def g(s, o):
        if not builtins.isinstance(o, (Sym, _nb.Number, rnp.bool_)): return NotImplemented
        return f(s, o)
    setattr(SN, name, g)
for _n in ("__add__","__radd__","__sub__","__rsub__","__mul__","__rmul__","__truediv__","__rtruediv__","__lt__","__le__","__gt__","__ge__","__floordiv__"):
    _defer2(_n)
_SENT = {}
def _sn_format(s, spec=""):
    tok = str(900000000 + len(_SENT)); _SENT[tok] = s; return tok
SN.__format__ = _sn_format
SN.__str__ = lambda s: _sn_format(s)
def _sn_divmod(s, o):
    q = s // o; return q, s - q * o
SN.__divmod__ = _sn_divmod
def _sn_floordiv(s, o):
    a, b = s._co(o)
    if a.sort() != z3.IntSort(): return SN(z3.ToReal(z3.ToInt(a / b)))
    if not E.fork(b > 0): a, b = -a, -b
    return SN(a / b)
SN.__floordiv__ = _sn_floordiv
DT.__str__ = lambda s: "DT<" + str(s.sec) + ">"
TD.__str__ = lambda s: "TD<" + str(s.sec) + ">"

def _concretize(s, e):
    e = z3.simplify(e)
    if z3.is_int_value(e): return e.as_long()
    if s.pos < len(s.script):
        kind, val = s.script[s.pos]
        if kind == "eq":
            s.pos += 1; s.solver.add(e == val); s.pc.append(e == val); return val
        excluded = list(val)      # ("ne", [...]) must be last entry
        assert s.pos == len(s.script) - 1
        s.script.pop()
    else:
        excluded = []
    for x in excluded: s.solver.add(e != x); s.pc.append(e != x)
    if s.check() != z3.sat: raise Abort()
    v = s.solver.model().eval(e, model_completion=True).as_long()
    # alternative: some other value
    if s.check(e != v) == z3.sat:
        s.pending.append(s.script[:s.pos] + [("ne", excluded + [v])])
    s.script.append(("eq", v)); s.pos += 1
    s.solver.add(e == v); s.pc.append(e == v)
    return v
Engine.concretize = _concretize
def _rmod(s, o): return SN.of(o) % s
SN.__rmod__ = _rmod
def _rfloordiv(s, o): return SN.of(o) // s
SN.__rfloordiv__ = _rfloordiv
DT.__hash__ = lambda s: hash(("DT", E.concretize(s.sec.e)))
TD.__hash__ = lambda s: hash(("TD", E.concretize(s.sec.e)))
def _dt_eq(s, o):
    if not builtins.isinstance(o, DT): return False
    return s.sec == o.sec
DT.__eq__ = _dt_eq
_chk0 = Engine.check
def _chk(s, *extra):
    t = time.time(); r = _chk0(s, *extra); d = time.time() - t
    if d > 2 or r == z3.unknown: print("  slow/unknown query", r, round(d, 1), flush=True)
    return r
Engine.check = _chk

# --- integer parts of reals are concretised through REAL interval constraints (keeps queries in QF_NRA)
import math as _math
def _conc_floor(s, e):
    e = z3.simplify(e)
    if z3.is_rational_value(e): return _math.floor(fractions.Fraction(e.numerator_as_long(), e.denominator_as_long()))
    if s.pos < len(s.script):
        kind, val = s.script[s.pos]
        if kind == "fl":
            s.pos += 1; c = z3.And(e >= val, e < val + 1); s.solver.add(c); s.pc.append(c); return val
        excluded = list(val); assert kind == "nf" and s.pos == len(s.script) - 1; s.script.pop()
    else: excluded = []
    for x in excluded:
        c = z3.Or(e < x, e >= x + 1); s.solver.add(c); s.pc.append(c)
    if s.check() != z3.sat: raise Abort()
    mv = s.solver.model().eval(e, model_completion=True)
    mv = z3.simplify(mv)
    if z3.is_algebraic_value(mv): mv = mv.approx(20)
    v = _math.floor(fractions.Fraction(mv.numerator_as_long(), mv.denominator_as_long()))
    if s.check(z3.Or(e < v, e >= v + 1)) == z3.sat:
        s.pending.append(s.script[:s.pos] + [("nf", excluded + [v])])
    s.script.append(("fl", v)); s.pos += 1
    c = z3.And(e >= v, e < v + 1); s.solver.add(c); s.pc.append(c)
    return v
Engine.conc_floor = _conc_floor
def _trunc(s):
    if s.isint: return s
    if E.fork(s.e >= 0): return SN.of(E.conc_floor(s.e))
    return SN.of(-E.conc_floor(-s.e))
SN.trunc = _trunc
def _rint(s):
    if s.isint: return s
    f = E.conc_floor(s.e); r = s.e - f
    if E.fork(r < z3.RealVal("1/2")): v = f
    elif E.fork(r > z3.RealVal("1/2")): v = f + 1
    else: v = f if f % 2 == 0 else f + 1
    return SN(z3.RealVal(v))
SN.rint = _rint

# --- division by a symbolic term: memoised reciprocal variable (keeps obligations polynomial)
_RECIP = {}
def _truediv(s, o):
    if isinstance(o, SA) or not builtins.isinstance(o, (Sym, _nb.Number, rnp.bool_)): return NotImplemented
    a, b = s._co(o)
    if a.sort() == z3.IntSort(): a, b = z3.ToReal(a), z3.ToReal(b)
    b = z3.simplify(b)
    if z3.is_rational_value(b):
        return SN(a * z3.RealVal(str(1 / fractions.Fraction(b.numerator_as_long(), b.denominator_as_long()))))
    key = b.get_id()
    if key not in _RECIP:
        r = z3.Real(f"recip!{len(_RECIP)}"); _RECIP[key] = (r, b)
    r, _ = _RECIP[key]
    c = b * r == 1
    if not any(c.eq(x) for x in E.pc): E.solver.add(c); E.pc.append(c)
    return SN(a * r)
SN.__truediv__ = _truediv
SN.__rtruediv__ = lambda s, o: SN.of(o).__truediv__(s) if builtins.isinstance(o, (Sym, _nb.Number)) else NotImplemented
