import z3,time
S=z3.String("s")
digits=z3.Plus(z3.Range("0","9"))
def grp(letter): return z3.Option(z3.Concat(digits,z3.Re(letter)))
pat=z3.Concat(z3.Re("PT"),grp("H"),grp("M"),grp("S"))
# groups as fresh strings
g=[z3.String(f"g{i}") for i in range(3)]
n=[z3.String(f"n{i}") for i in range(3)]
cons=[S==z3.Concat(z3.StringVal("PT"),*g)]
val=[]
for gi,ni,L in zip(g,n,"HMS"):
    cons.append(z3.Or(gi==z3.StringVal(""), z3.And(gi==z3.Concat(ni,z3.StringVal(L)), z3.InRe(ni,digits))))
    val.append(z3.If(gi==z3.StringVal(""),0,z3.StrToInt(ni)))
total=val[0]*3600+val[1]*60+val[2]
# harness: spelled from ints x,y,z with all three groups present
x,y,z=z3.Ints("x y z")
sx,sy,sz=[z3.String(k) for k in ("sx","sy","sz")]
canon=z3.Union(z3.Re("0"),z3.Concat(z3.Range("1","9"),z3.Star(z3.Range("0","9"))))
s=z3.Solver(); s.set("timeout",60000)
s.add(*cons)
s.add(z3.InRe(sx,canon),z3.InRe(sy,canon),z3.InRe(sz,canon),z3.StrToInt(sx)==x,z3.StrToInt(sy)==y,z3.StrToInt(sz)==z, z3.Length(sx)<=4,z3.Length(sy)<=4,z3.Length(sz)<=4)
s.add(S==z3.Concat(z3.StringVal("PT"),sx,z3.StringVal("H"),sy,z3.StringVal("M"),sz,z3.StringVal("S")))
s.add(total!=3600*x+60*y+z)
t=time.time();print(s.check(),time.time()-t)
# language equivalence with documented grammar
doc=z3.Concat(z3.Re("PT"),z3.Option(z3.Concat(digits,z3.Re("H"))),z3.Option(z3.Concat(digits,z3.Re("M"))),z3.Option(z3.Concat(digits,z3.Re("S"))))
s=z3.Solver(); s.add(z3.InRe(S,pat)!=z3.InRe(S,doc)); t=time.time();print(s.check(),time.time()-t)
