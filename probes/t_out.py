import sys, time; sys.path.insert(0,"/tmp/probe")
from sx import *
import sx
from pathlib import Path
# ---- netCDF write stub ----
FILES = {}
class WVar:
    def __init__(s, ds, name, dims, fill=None): s.ds, s.name, s.dims, s.fill = ds, name, dims, fill; s.cells = {}
    def _chk(s):
        if not s.ds.open: raise RuntimeError("NetCDF: Not a valid ID")
    def __setattr__(s, k, v): object.__setattr__(s, k, v)
    def __setitem__(s, key, val):
        s._chk()
        if not isinstance(key, tuple): key = (key,)
        idxs = []
        for d, k in zip(s.dims, key):
            if isinstance(k, slice):
                start = 0 if k.start is None else SN.of(k.start).__index__() if is_sym(k.start) else k.start
                stop = None if k.stop is None else (SN.of(k.stop).__index__() if is_sym(k.stop) else k.stop)
                if stop is None: stop = max(s.ds.dimlen[d], start + (len(val) if hasattr(val, "__len__") else 1))
                idxs.append(list(range(start, stop)))
            elif isinstance(k, SA) and k.kind == "b": idxs.append([i for i, b in enumerate(k.a) if bool(b)])
            elif isinstance(k, rnp.ndarray) and k.dtype == bool: idxs.append([i for i, b in enumerate(k) if b])
            else: idxs.append([SN.of(k).__index__() if is_sym(k) else int(k)])
        vals = list(SA.un(val).ravel()) if isinstance(val, (SA, rnp.ndarray)) else None
        import itertools
        cells = list(itertools.product(*idxs))
        if vals is not None and len(vals) != len(cells) and len(vals) != 1: raise IndexError(f"shape mismatch {len(vals)} vs {len(cells)}")
        for n, c in enumerate(cells):
            s.cells[c] = (vals[n] if len(vals) > 1 else vals[0]) if vals is not None else val
            for d, i in zip(s.dims, c): s.ds.dimlen[d] = max(s.ds.dimlen[d], i + 1)
    def read(s):
        shape = [s.ds.dimlen[d] for d in s.dims]
        import itertools
        return {c: s.cells.get(c, "FILL") for c in itertools.product(*[range(n) for n in shape])}
class WDS:
    def __init__(s, filename, **k): s.name = str(filename); s.open = True; s.dimlen = {}; s.variables = {}; s.att = {}; FILES[s.name] = s
    def createDimension(s, n, size): s.dimlen[n] = 0
    def createVariable(s, name, dt, dims, fill_value=None): v = WVar(s, name, dims, fill_value); s.variables[name] = v; return v
    def __setattr__(s, k, v): object.__setattr__(s, k, v)
    def sync(s):
        if not s.open: raise RuntimeError("NetCDF: Not a valid ID")
    def close(s):
        if not s.open: raise RuntimeError("NetCDF: Not a valid ID")
        s.open = False
    def isopen(s): return s.open
nc4 = types.ModuleType("netCDF4"); nc4.Dataset = WDS
_old = sx.B["__import__"]
def imp(name, g=None, l=None, fromlist=(), level=0):
    if name == "netCDF4": return nc4
    return _old(name, g, l, fromlist, level)
sx.B["__import__"] = imp
symnp.full = lambda n, v: SA(rnp.full(n, v, dtype=object), "b" if isinstance(v, bool) else "f")
SA.max = lambda s: __import__("functools").reduce(lambda a, b: s_max(a, b), list(s.a))
out = load("ladim.out_netcdf"); tk = load("ladim.timekeeper"); st = load("ladim.state")
ivars = dict(pid=dict(encoding=dict(datatype="i4"), attributes={}), X=dict(encoding=dict(datatype="f4"), attributes={}))
def scenario():
    FILES.clear()
    Nsteps, per, numrec = fresh_int("Nsteps"), fresh_int("per"), fresh_int("numrec")
    E.assume(Nsteps >= 1); E.assume(Nsteps <= 5); E.assume(per >= 1); E.assume(per <= 3); E.assume(numrec >= 0); E.assume(numrec <= 2)
    dt = 600; start = 946684800
    N, P, R = Nsteps.__index__(), per.__index__(), numrec.__index__()
    timer = tk.TimeKeeper(start=DT(start), stop=DT(start + N * dt), dt=dt)
    S = st.State()
    mods = dict(time=timer, grid=None, state=S)
    try:
        O = out.Output(mods, "o.nc", TD(P * dt), dict(ivars), numrec=R)
        S.append(X=fresh_real("x0"), Y=1.0, Z=1.0)
        for _ in range(N):
            timer.update()
            if timer.step >= 0: O.update()
        O.close()
    except RuntimeError as e:
        return (N, P, R), "CRASH " + str(e)
    nrec = sum(ds.dimlen["time"] for ds in FILES.values())
    exp = len([k for k in range(N) if k % P == 0])
    allclosed = all(not ds.open for ds in FILES.values())
    if nrec != exp: return (N, P, R), f"records {nrec} != {exp}"
    return (N, P, R), "ok" if allclosed else "unclosed"
t = time.time(); r = E.run(scenario)
print("paths", len(r), "wall", round(time.time() - t, 1))
import collections
c = collections.Counter(x[1].split()[0] for x in r); print(c)
print("bad:", sorted(x for x in r if x[1] != "ok")[:40])
