import z3, subprocess, time, tempfile, os
# representative obligations: NRA (trilinear weights), LIA with div/mod, mixed to_int
p,q,a=z3.Reals("p q a"); F=[z3.Real(f"F{i}") for i in range(8)]
def tri(F):
    f00=a*F[0]+(1-a)*F[4]; f01=a*F[2]+(1-a)*F[6]; f10=a*F[1]+(1-a)*F[5]; f11=a*F[3]+(1-a)*F[7]
    return (1-p)*(1-q)*f00+p*(1-q)*f10+(1-p)*q*f01+p*q*f11
R=tri(F)
ws=[z3.substitute(R,*[(f,z3.RealVal(1 if f is g else 0)) for f in F]) for g in F]
obl={}
s=z3.Solver(); s.add(0<=p,p<=1,0<=q,q<=1,0<=a,a<=1, z3.Or(*[w<0 for w in ws]+[z3.Sum(ws)!=1])); obl["nra_weights"]=s
n,d,st=z3.Ints("n d st"); s=z3.Solver(); s.add(d>=0, n==d/600, z3.Not(z3.And(n*600<=d, d<(n+1)*600))); obl["lia_div"]=s
x=z3.Real("x"); i=z3.ToInt(x+z3.RealVal("1/2")); s=z3.Solver(); s.add(x>1, x<z3.RealVal("5/2"), z3.Or(i<1, i>2)); obl["toint"]=s
step,per=z3.Ints("step per"); s=z3.Solver(); s.add(per>=1, per<=5, step>=0, step%per==0, z3.Not(z3.Exists([n], step==n*per))); obl["mod_quant"]=s
for k,s in obl.items():
    t=time.time(); r3=s.check(); t3=time.time()-t
    txt="(set-logic ALL)\n"+s.to_smt2()
    with tempfile.NamedTemporaryFile("w",suffix=".smt2",delete=False) as f: f.write(txt); fn=f.name
    t=time.time()
    try: out=subprocess.run(["cvc5","--tlimit=20000",fn],capture_output=True,text=True,timeout=30).stdout.strip()
    except subprocess.TimeoutExpired: out="timeout"
    print(k,"z3",r3,round(t3,3),"cvc5",out.replace("\n"," | ")[:80],round(time.time()-t,2)); os.unlink(fn)
