from fractions import Fraction as Fr
# exact-arithmetic re-execution of bilin_inv's algorithm on the CEX (pure Fractions, mirrors sample.py)
n=4; a0,a1,a2,b0,b1,b2=10,Fr(3,50),Fr(-4,50),60,Fr(4,100),Fr(3,100)
F=[[a0+a1*i+a2*j for i in range(n)] for j in range(n)]; G=[[b0+b1*i+b2*j for i in range(n)] for j in range(n)]
X=Fr(4397076990685,2199023255552); Y=Fr(511,256)
f=a0+a1*X+a2*Y; g=b0+b1*X+b2*Y
x=Fr(n,2); y=Fr(n,2); tol=Fr(1,10**7)
for t in range(7):
    i=int(x); j=int(y); p=x-i; q=y-j
    Fs=(1-p)*(1-q)*F[i][j]+p*(1-q)*F[i+1][j]+(1-p)*q*F[i][j+1]+p*q*F[i+1][j+1]
    Gs=(1-p)*(1-q)*G[i][j]+p*(1-q)*G[i+1][j]+(1-p)*q*G[i][j+1]+p*q*G[i+1][j+1]
    H=(Fs-f)**2+(Gs-g)**2
    print(t,"x,y",float(x),float(y),"H",float(H), H<tol)
    if H<tol: break
    Fx=(1-q)*(F[i+1][j]-F[i][j])+q*(F[i+1][j+1]-F[i][j+1]); Fy=(1-p)*(F[i][j+1]-F[i][j])+p*(F[i+1][j+1]-F[i+1][j])
    Gx=(1-q)*(G[i+1][j]-G[i][j])+q*(G[i+1][j+1]-G[i][j+1]); Gy=(1-p)*(G[i][j+1]-G[i][j])+p*(G[i+1][j+1]-G[i+1][j])
    det=Fx*Gy-Fy*Gx
    x-= (Gy*(Fs-f)-Fy*(Gs-g))/det; y-=(-Gx*(Fs-f)+Fx*(Gs-g))/det
print("result first-axis coord", float(x), "second", float(y), "expected first(Y)", float(Y), "second(X)", float(X))
