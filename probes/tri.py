import z3,time
p,q,a=z3.Reals("p q a")
F=[[[z3.Real(f"F{k}{j}{i}") for i in range(2)] for j in range(2)] for k in range(2)]
def tri(F):
    f00=a*F[0][0][0]+(1-a)*F[1][0][0]
    f01=a*F[0][1][0]+(1-a)*F[1][1][0]
    f10=a*F[0][0][1]+(1-a)*F[1][0][1]
    f11=a*F[0][1][1]+(1-a)*F[1][1][1]
    return (1-p)*(1-q)*f00+p*(1-q)*f10+(1-p)*q*f01+p*q*f11
R=tri(F)
flat=[F[k][j][i] for k in range(2) for j in range(2) for i in range(2)]
dom=z3.And(0<=p,p<=1,0<=q,q<=1,0<=a,a<=1)
# convexity direct: exists F, pos: R > all
s=z3.Solver(); s.set("timeout",20000); s.add(dom); s.add(z3.Or(z3.And(*[R>f for f in flat]), z3.And(*[R<f for f in flat])))
t=time.time(); print("direct",s.check(),time.time()-t)
# weights
s=z3.Solver(); s.add(dom)
ws=[z3.substitute(R,*[(f,z3.RealVal(1 if f is g else 0)) for f in flat]) for g in flat]
s.add(z3.Or(*[w<0 for w in ws]+[z3.Sum(ws)!=1]))
t=time.time(); print("weights",s.check(),time.time()-t)
# linear exactness: F[k][j][i]=ak+bk*xi+ck*yj
x0,y0,b0,b1,c0,c1,a0,a1=z3.Reals("x0 y0 b0 b1 c0 c1 a0 a1")
sub=[]
for k,(aa,bb,cc) in enumerate([(a0,b0,c0),(a1,b1,c1)]):
    for j in range(2):
        for i in range(2):
            sub.append((F[k][j][i], aa+bb*(x0+i)+cc*(y0+j)))
Rl=z3.substitute(R,*sub)
x,y=x0+p,y0+q
exp=a*(a0+b0*x+c0*y)+(1-a)*(a1+b1*x+c1*y)
s=z3.Solver(); s.add(dom, Rl!=exp)
t=time.time(); print("linear",s.check(),time.time()-t)
