import sys, time, warnings; sys.path.insert(0,"/tmp/probe"); warnings.simplefilter("ignore")
from sx import *
import sx, pandas as rpd, inspect
SA.__array__ = lambda s, dtype=None, copy=None: s.a
TABLE = {}
def fake_read_csv(f, **kw):
    inspect.signature(rpd.read_csv).bind(f, **kw)      # argument validation by the installed pandas
    return TABLE["df"].copy()
pdm = types.ModuleType("pandas")
for k in dir(rpd):
    try: setattr(pdm, k, getattr(rpd, k))
    except Exception: pass
pdm.read_csv = fake_read_csv
nc4 = types.ModuleType("netCDF4"); nc4.Dataset = None
_old = sx.B["__import__"]
def imp(name, g=None, l=None, fromlist=(), level=0):
    if name == "netCDF4": return nc4
    if name == "pandas": return pdm
    return _old(name, g, l, fromlist, level)
sx.B["__import__"] = imp
def np_arange(a, b=None, step=None, dtype=None):
    if isinstance(a, DT):
        n = 0; out = []
        t = a
        while bool((t < b) if bool(step.sec > 0) else (t > b)):
            out.append(t); t = t + step
            if len(out) > 50: raise Unsupported("arange")
        return SA(out, "M")
    return SA(rnp.arange(int(a), None if b is None else int(b)).astype(object), "i")
symnp.arange = np_arange
def np_broadcast(*vals):
    vals = [rnp.asarray(v, dtype=object) if hasattr(v, "to_numpy") else v for v in vals]
    return sx._Bc(*[SA(v) if isinstance(v, rnp.ndarray) and v.ndim else v for v in vals])
symnp.broadcast = np_broadcast
_bt = symnp.broadcast_to
symnp.broadcast_to = lambda v, shape: _bt(SA(rnp.asarray(v, dtype=object)) if hasattr(v, "to_numpy") else v, shape)
rel = load("ladim.release"); tk = load("ladim.timekeeper"); st = load("ladim.state")
# patched copy of the two removed pandas APIs?  -> first run unpatched to see the TypeError
dt = 3600; start = 946684800
def scenario(R, Nsteps, rev, continuous, patched):
    m = [fresh_int(f"m{i}") for i in range(R)]
    for i in range(R - 1): E.assume(m[i] <= m[i + 1])
    E.assume(m[0] >= -2); E.assume(m[-1] <= Nsteps + 1)
    mult = [fresh_int(f"mult{i}") for i in range(R)]
    for q in mult: E.assume(q >= 0); E.assume(q <= 2)
    multc = [q.__index__() for q in mult]
    tags = [fresh_real(f"tag{i}") for i in range(R)]; xs = [fresh_real(f"x{i}") for i in range(R)]
    times = [DT(SN.of(start) + (mi * dt if not rev else -mi * dt)) for mi in m]
    idx = rpd.Index(rnp.array(times, dtype=object), name="release_time")
    TABLE["df"] = rpd.DataFrame(dict(mult=multc, X=rnp.array(xs, dtype=object), Y=rnp.array(xs, dtype=object), Z=[5.0]*R, tag=rnp.array(tags, dtype=object)), index=idx)
    stop = start + Nsteps * dt if not rev else start - Nsteps * dt
    timer = tk.TimeKeeper(start=DT(start), stop=DT(stop), dt=dt, time_reversal=rev)
    S = st.State(instance_variables=dict(tag=float))
    mods = dict(time=timer, grid=None, state=S)
    kw = dict(continuous=True, release_frequency=dt) if continuous else {}
    try:
        PR = rel.ParticleReleaser(mods, "dummy.rls", **kw)
    except SystemExit:
        return "exit"
    mc = [x.__index__() for x in m]
    for s in range(Nsteps):
        timer.step = s          # drive the step directly (clock itself is C13's business)
        n0 = len(S); PR.update()
        if continuous:
            # oracle: ticks anchored at first file time; row set of latest file time <= tick (simulation order)
            t0 = mc[0]
            if s < t0 or (s - t0) % 1 != 0: exp = []
            else:
                latest = max(v for v in mc if v <= s)
                exp = [(i, k) for i in range(R) if mc[i] == latest for k in range(multc[i])]
            if len(S) - n0 != len(exp): return ("FAIL count", tuple(mc), tuple(multc), s, len(S) - n0, len(exp))
            for q, (i, k) in enumerate(exp):
                if E.check(z3.Not((S.tag.a[n0 + q] == tags[i]).e)) != z3.unsat: return ("FAIL tag", tuple(mc), tuple(multc), s)
            continue
        exp = [(i, k) for i in range(R) if mc[i] == s for k in range(multc[i])]
        if len(S) - n0 != len(exp): return ("FAIL count", tuple(mc), tuple(multc), s, len(S) - n0, len(exp))
        for q, (i, k) in enumerate(exp):
            if E.check(z3.Not((S.tag.a[n0 + q] == tags[i]).e)) != z3.unsat: return ("FAIL tag", tuple(mc), tuple(multc), s)
    return "ok"
for CONT in (True,):
  for patched in (False,):
    for rev in (False, True):
        t = time.time(); E.paths = 0
        try:
            r = E.run(lambda: scenario(2, 3, rev, CONT, patched))
            import collections; c = collections.Counter(x if isinstance(x, str) else x[0] for x in r)
            print("rev", rev, "paths", len(r), dict(c), "wall", round(time.time() - t, 1)); print("   ", [x for x in r if not isinstance(x, str)][:3])
        except BaseException as e:
            import traceback; print("rev", rev, "EXC", type(e).__name__, str(e)[:200]); traceback.print_exc(limit=4)
