#!/bin/sh
# Build the overlay venv used by every check: /venv's packages + z3-solver from the offline wheelhouse.
set -e
V=/verif/.venv
if [ ! -x "$V/bin/python" ] || ! "$V/bin/python" -c "import z3, numpy, pandas, netCDF4" 2>/dev/null; then
  rm -rf "$V"
  /venv/bin/python -m venv "$V"
  echo "import site; site.addsitedir('/venv/lib/python3.12/site-packages')" > "$V/lib/python3.12/site-packages/_base.pth"
  PIP_NO_INDEX=1 "$V/bin/pip" install -q --no-index --find-links /opt/veriftools/wheels z3-solver
fi
"$V/bin/python" -c "import z3; print('z3', z3.get_version_string())"
