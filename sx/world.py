"""Backends a harness is written against: SymWorld (shadow modules over SMT terms) and
RealWorld (the real ladim modules from the repository on concrete values taken from a model).
The same scenario function runs on both; that is how counterexamples are replayed."""
from __future__ import annotations

import importlib
import math
import os
import shutil
import sys
import tempfile
from pathlib import Path

import numpy as rnp

from .core import Fraction


class Diverged(Exception):
    """real replay asked for a variable the model does not define (path differs)"""


FILL = "FILL"


class BaseWorld:
    symbolic = False

    def __init__(self):
        self.tmp = None
        self._tmp_owned = False

    def scratch(self):
        if self.tmp is None:
            base = os.environ.get("SX_TMP") or tempfile.gettempdir()
            self.tmp = Path(tempfile.mkdtemp(prefix="sxw_", dir=base))
            self._tmp_owned = True
        return self.tmp

    def cleanup(self):
        if self.tmp is not None and self._tmp_owned:
            shutil.rmtree(self.tmp, ignore_errors=True)
        self.tmp = None

    def fresh_scratch(self):
        self.cleanup()
        return self.scratch()


# =============================================================================================
class SymWorld(BaseWorld):
    symbolic = True

    def __init__(self):
        super().__init__()
        from . import core, loader, stubs, symnp

        self.core, self.loader, self.stubs, self.np = core, loader, stubs, symnp
        self.E = core.E

    # -- variables
    def real(self, name, lo=None, hi=None, lo_strict=False, hi_strict=False):
        v = self.core.fresh_real(name)
        # range constraints of a fresh variable cannot make the path infeasible unless lo > hi
        if lo is not None:
            self.E.assume((v > lo) if lo_strict else (v >= lo), check=False)
        if hi is not None:
            self.E.assume((v < hi) if hi_strict else (v <= hi), check=False)
        return v

    def int(self, name, lo=None, hi=None):
        v = self.core.fresh_int(name)
        if lo is not None:
            self.E.assume(v >= lo, check=False)
        if hi is not None:
            self.E.assume(v <= hi, check=False)
        return v

    def bool(self, name):
        return self.core.fresh_bool(name)

    def idx(self, x):
        """python int of an integer value (sym: explores every feasible value)"""
        return x.__index__() if self.core.is_sym(x) else int(x)

    def truth(self, c):
        return bool(c)

    def assume(self, c, note=None):
        self.E.assume(c, note)

    def prove(self, c, clause, info=None):
        return self.E.prove(c, clause, info)

    # -- conditions
    def eq(self, a, b):
        if isinstance(a, (self.np.DT, self.np.TD)) or isinstance(b, (self.np.DT, self.np.TD)):
            return self.core.SB.of(a == b)
        if a is b:
            return self.core.SB.of(True)
        if isinstance(a, (bool, rnp.bool_, self.core.SB)) or isinstance(b, (bool, rnp.bool_, self.core.SB)):
            return self.core.SB.of(a) == self.core.SB.of(b)
        return self.core.SB.of(self.core.SN.of(a) == b)

    def le(self, a, b):
        return self.core.SB.of(self.core.SN.of(a) <= b)

    def lt(self, a, b):
        return self.core.SB.of(self.core.SN.of(a) < b)

    def all(self, conds):
        r = self.core.SB.of(True)
        for c in conds:
            r = r & self.core.SB.of(c)
        return r

    def any(self, conds):
        r = self.core.SB.of(False)
        for c in conds:
            r = r | self.core.SB.of(c)
        return r

    def not_(self, c):
        return ~self.core.SB.of(c)

    def implies(self, a, b):
        return (~self.core.SB.of(a)) | self.core.SB.of(b)

    def ite(self, c, a, b):
        return self.core.ite(c, a, b)

    def frac(self, *a):
        return self.core.Q(Fraction(*a))

    # -- modules / arrays / time
    def load(self, name):
        return self.loader.load(name)

    def arr(self, xs, kind=None):
        return self.np.SA(self.np._to_obj(xs) if len(xs) else rnp.empty((0,), dtype=object), kind)

    def arr_nd(self, nested, kind=None):
        return self.np.SA(self.np._to_obj(nested), kind)

    def tolist(self, a):
        if isinstance(a, self.np.SA):
            return a.a.tolist()
        if hasattr(a, "to_numpy"):
            return list(a.to_numpy())
        return list(a)

    def dt(self, sec):
        return self.np.DT(sec if not isinstance(sec, Fraction) else int(sec))

    def td(self, sec):
        return self.np.TD(sec)

    def sec_of(self, t):
        return t.sec

    def kind_of(self, a):
        """numpy dtype kind of a state array: b, i, f, M (datetime), m, O (objects, e.g. text)"""
        if isinstance(a, self.np.SA):
            if a.a.size and all(isinstance(x, self.np.DT) for x in a.a.ravel()):
                return "M"
            if a.a.size and any(isinstance(x, str) for x in a.a.ravel()):
                return "O"
            return a.kind
        return rnp.asarray(a).dtype.kind

    def is_fill(self, x):
        return isinstance(x, self.stubs.Masked) or x is FILL

    # -- files
    def nc_file(self, path, dims, variables, atts=None):
        self.stubs.register_file(str(path), dims, {k: (v[0], v[1], dict(v[2]) if len(v) > 2 else {}) for k, v in variables.items()}, atts)
        Path(path).touch()

    def nc_exists(self, path):
        return str(path) in self.stubs.FS

    def nc_del_gatt(self, path, name):
        """remove a global attribute of a finished file (e.g. to model a file written by an older version)"""
        self.stubs.FS[str(path)]._st["atts"].pop(name, None)

    def nc_files(self):
        return sorted(self.stubs.FS)

    def nc_is_closed(self, path):
        return not self.stubs.FS[str(path)]._st["writer_open"]

    def nc_read(self, path):
        """-> dict(dims={name: len}, vars={name: nested lists, unwritten cells = FILL}, atts={var: {..}})"""
        f = self.stubs.FS[str(path)]
        out = dict(dims=dict(f._dimlen), vars={}, atts={}, gatts=dict(f._st["atts"]), types={})
        for name, v in f._st["variables"].items():
            try:
                out["types"][name] = rnp.dtype({"i": "i4", "f": "f4", "d": "f8"}.get(v._datatype, v._datatype)).name
            except Exception:  # noqa
                out["types"][name] = str(v._datatype)
            shape = v.shape
            arr = rnp.empty(shape, dtype=object)
            for idx in rnp.ndindex(shape):
                arr[idx] = v._cells.get(idx, FILL)
            out["vars"][name] = arr.tolist() if shape else v._cells.get((), FILL)
            out["atts"][name] = dict(v._atts)
        return out

    def table(self, path, columns, rows, header=True):
        self.stubs.register_table(str(path), columns, rows, header)

    def rng_calls(self):
        return list(self.np.RNG.calls)

    def xi(self, call, i):
        return self.core.SN(self.E.vars[f"xi_{call}_{i}"])

    def patch_rng(self, tracker):
        pass

    def nclog(self):
        return list(self.stubs.NCLOG)

    def plugin(self, name, path=None, module=None):
        self.loader.PLUGINS[name] = module if module is not None else Path(path)


# =============================================================================================
class _ReplayRNG:
    """generator whose draws are the values of the model (same naming as the symbolic stub: unseeded generators share one
    call counter, generators created with an explicit seed replay their own stream)"""

    def __init__(self, world, seed=None):
        self.w = world
        self.seed = seed
        self.k = 0

    def normal(self, loc=0.0, scale=1.0, size=None):
        shape = None
        if isinstance(size, (tuple, list)):
            shape = tuple(int(d) for d in size)
            size = int(rnp.prod(shape, dtype=int))
        n = 1 if size is None else int(size)
        if self.seed is None:
            c = self.w._rng_count
            self.w._rng_count += 1
        else:
            c = f"s{self.seed}_{self.k}"
            self.k += 1
        self.w._rng_calls.append((c, n))
        xs = rnp.array([self.w._val(f"xi_{c}_{i}") for i in range(n)], dtype=float)
        r = xs * scale + loc
        if shape is not None:
            return r.reshape(shape)
        return r if size is not None else r[0]

    def standard_normal(self, size=None, dtype=None, out=None):
        if out is not None:
            out[...] = self.normal(size=out.size).reshape(out.shape)
            return out
        return self.normal(size=size)


class RealWorld(BaseWorld):
    """concrete twin: real modules, real numpy/pandas/netCDF4, values from a solver model"""

    symbolic = False
    rtol = 1e-9

    def __init__(self, model, repo="/repo"):
        super().__init__()
        self.model = model or {}
        self.repo = repo
        self.failures = []
        self.checked = 0
        self._rng_calls = []
        self._rng_count = 0
        self._used = set()
        # every generator the real code creates replays the model's draws
        self._orig_default_rng = rnp.random.default_rng
        rnp.random.default_rng = lambda seed=None, *a, **k: _ReplayRNG(self, seed)
        if repo not in sys.path:
            sys.path.insert(0, repo)

    def _val(self, name):
        if name not in self.model:
            raise Diverged(name)
        self._used.add(name)
        v = self.model[name]
        if isinstance(v, list):
            return float(Fraction(v[0], v[1]))
        return v

    def real(self, name, lo=None, hi=None, lo_strict=False, hi_strict=False):
        return float(self._val(name))

    def int(self, name, lo=None, hi=None):
        return int(self._val(name))

    def bool(self, name):
        return bool(self._val(name))

    def idx(self, x):
        return int(x)

    def truth(self, c):
        return bool(c)

    def assume(self, c, note=None):
        if not bool(c):
            raise Diverged(f"assumption false in replay: {note}")

    def prove(self, c, clause, info=None):
        self.checked += 1
        ok = bool(c)
        if not ok:
            self.failures.append(dict(clause=clause, info=_jsonable(info)))
        return ok

    # -- conditions with float tolerance
    def _close(self, a, b):
        if isinstance(a, (rnp.datetime64, rnp.timedelta64)) or isinstance(b, (rnp.datetime64, rnp.timedelta64)):
            return bool(a == b)
        if isinstance(a, (bool, rnp.bool_)) or isinstance(b, (bool, rnp.bool_)):
            return bool(a) == bool(b)
        if a is FILL or b is FILL or a is None or b is None:
            return a is b
        if rnp.ma.is_masked(a) or rnp.ma.is_masked(b):
            return bool(rnp.ma.is_masked(a) and rnp.ma.is_masked(b))
        a, b = float(a), float(b)
        if math.isnan(a) or math.isnan(b):
            return math.isnan(a) and math.isnan(b)
        return abs(a - b) <= self.rtol * max(1.0, abs(a), abs(b))

    def eq(self, a, b):
        return self._close(a, b)

    def le(self, a, b):
        # order comparisons are exact (they steer the harness' control flow on boundaries); only eq has a tolerance
        return bool(a <= b)

    def lt(self, a, b):
        return bool(a < b)

    def all(self, conds):
        return all(bool(c) for c in conds)

    def any(self, conds):
        return any(bool(c) for c in conds)

    def not_(self, c):
        return not bool(c)

    def implies(self, a, b):
        return (not bool(a)) or bool(b)

    def ite(self, c, a, b):
        return a if bool(c) else b

    def frac(self, *a):
        return float(Fraction(*a))

    # -- modules / arrays / time
    def load(self, name):
        return importlib.import_module(name)

    def arr(self, xs, kind=None):
        dt = {"b": bool, "i": int, "f": float, "M": "M8[s]", None: None}[kind]
        xs = [float(x) if isinstance(x, Fraction) else x for x in xs]
        return rnp.array(xs, dtype=dt) if dt is not None else rnp.array(xs)

    def arr_nd(self, nested, kind=None):
        def conv(x):
            if isinstance(x, (list, tuple)):
                return [conv(y) for y in x]
            return float(x) if isinstance(x, Fraction) else x

        dt = {"b": bool, "i": int, "f": float, None: None}[kind]
        return rnp.array(conv(nested), dtype=dt) if dt else rnp.array(conv(nested))

    def tolist(self, a):
        if hasattr(a, "to_numpy"):
            a = a.to_numpy()
        return list(rnp.asarray(a).tolist()) if rnp.asarray(a).dtype.kind != "M" else list(rnp.asarray(a))

    def dt(self, sec):
        return rnp.datetime64(int(sec), "s")

    def td(self, sec):
        return rnp.timedelta64(int(sec), "s")

    def sec_of(self, t):
        if isinstance(t, rnp.timedelta64):
            return int(t / rnp.timedelta64(1, "s"))
        return int((rnp.datetime64(t, "s") - rnp.datetime64(0, "s")) / rnp.timedelta64(1, "s"))

    def kind_of(self, a):
        k = rnp.asarray(a).dtype.kind
        return {"u": "i", "U": "O", "S": "O"}.get(k, k)

    def is_fill(self, x):
        return x is FILL

    # -- files
    def nc_file(self, path, dims, variables, atts=None):
        import netCDF4

        with netCDF4.Dataset(str(path), "w", format="NETCDF4") as nc:
            for d, n in dims.items():
                nc.createDimension(d, n)
            for name, spec in variables.items():
                vd, data = spec[0], spec[1]
                va = dict(spec[2]) if len(spec) > 2 else {}
                dtp = va.pop("_datatype", "f8")
                v = nc.createVariable(name, dtp, vd)
                v.set_auto_maskandscale(False)
                arr = rnp.array(_tofloat(data), dtype=float if dtp[0] == "f" else int)
                if vd:
                    v[:] = arr
                else:
                    v.assignValue(arr)
                for k, x in va.items():
                    setattr(v, k, _tofloat(x))
            for k, x in (atts or {}).items():
                setattr(nc, k, x)

    def nc_exists(self, path):
        return Path(path).exists()

    def nc_del_gatt(self, path, name):
        import netCDF4

        with netCDF4.Dataset(str(path), "a") as nc:
            if name in nc.ncattrs():
                nc.delncattr(name)

    def nc_files(self):
        return sorted(str(p) for p in Path(self.scratch()).rglob("*.nc"))

    def nc_is_closed(self, path):
        # a closed NetCDF4/HDF5 file can be re-opened; an unclosed one in this process is locked/incomplete
        import netCDF4

        try:
            with netCDF4.Dataset(str(path)):
                return True
        except OSError:
            return False

    def nc_read(self, path):
        import netCDF4

        out = dict(dims={}, vars={}, atts={}, gatts={}, types={})
        with netCDF4.Dataset(str(path)) as nc:
            for d, o in nc.dimensions.items():
                out["dims"][d] = len(o)
            out["gatts"] = {k: nc.getncattr(k) for k in nc.ncattrs()}
            for name, v in nc.variables.items():
                v.set_auto_maskandscale(True)
                if v.ndim >= 2 and v.shape[0] > 0:
                    # netCDF4 1.7.4 + numpy 2.5 return scrambled rows when a 2-D variable with an unlimited second
                    # dimension is read in one piece and some rows were never written: read record by record
                    data = rnp.ma.stack([rnp.ma.atleast_1d(v[r]) for r in range(v.shape[0])])
                else:
                    data = v[...]
                data = rnp.ma.masked_invalid(data) if data.dtype.kind == "f" else rnp.ma.asarray(data)
                out["vars"][name] = _ma_tolist(data)
                out["atts"][name] = {k: v.getncattr(k) for k in v.ncattrs()}
                out["types"][name] = v.dtype.name if hasattr(v.dtype, "name") else str(v.dtype)
        return out

    def table(self, path, columns, rows, header=True):
        with open(path, "w") as f:
            if header:
                f.write(" ".join(columns) + "\n")
            for r in rows:
                f.write(" ".join(_cell(x) for x in r) + "\n")

    def rng_calls(self):
        return list(self._rng_calls)

    def xi(self, call, i):
        return self._val(f"xi_{call}_{i}")

    def patch_rng(self, tracker):
        if not isinstance(tracker.rng, _ReplayRNG):
            tracker.rng = _ReplayRNG(self)

    def cleanup(self):
        rnp.random.default_rng = self._orig_default_rng
        super().cleanup()

    def nclog(self):
        return []

    def plugin(self, name, path=None, module=None):
        if module is not None:
            sys.modules[name] = module


def _isint(x):
    return isinstance(x, (int, rnp.integer)) and not isinstance(x, (bool, rnp.bool_))


def _cell(x):
    if isinstance(x, rnp.datetime64):
        return str(x)
    if isinstance(x, Fraction):
        return repr(float(x))
    if isinstance(x, float):
        return repr(x)
    return str(x)


def _tofloat(x):
    if isinstance(x, Fraction):
        return float(x)
    if isinstance(x, (list, tuple)):
        return [_tofloat(y) for y in x]
    if isinstance(x, rnp.ndarray) and x.dtype == object:
        return _tofloat(x.tolist())
    return x


def _ma_tolist(data):
    if data.ndim == 0:
        return FILL if rnp.ma.is_masked(data) else data.item()
    out = []
    for x in data:
        out.append(_ma_tolist(x))
    return out


def _jsonable(x):
    if x is None or isinstance(x, (str, int, float, bool)):
        return x
    if isinstance(x, Fraction):
        return float(x)
    if isinstance(x, dict):
        return {str(k): _jsonable(v) for k, v in x.items()}
    if isinstance(x, (list, tuple, set)):
        return [_jsonable(v) for v in x]
    return repr(x)[:200]
