"""Check driver: scenarios -> worker pool -> solver verdicts -> replay on the real code ->
known-findings filter -> evidence file -> exit code."""
from __future__ import annotations

import argparse
import hashlib
import importlib
import json
import multiprocessing as mp
import os
import random
import shutil
import sys
import tempfile
import time
import traceback
from pathlib import Path

VERIF = Path(__file__).resolve().parent.parent


def _load_harness(name):
    return importlib.import_module(f"harness.{name.lower()}")


# ------------------------------------------------------------------------------------------ worker
def _worker(job):
    hname, scen, repo, tier, nconf, dump = job
    os.environ["SX_REPO"] = repo
    t0 = time.time()
    out = dict(name=scen["name"], status="ok", violations=[], wall=0.0)
    try:
        import logging

        logging.disable(logging.CRITICAL)
        from sx import core, loader, world

        loader.REPO[0] = repo
        loader.unload_all()
        loader.start_trace()
        H = _load_harness(hname)
        E = core.E
        E.reset_all_keep_hooks()
        if dump:
            E.dump = []
        E.obl_timeout_ms = getattr(H, "OBL_TIMEOUT_MS", 60000)
        E.max_viol_per_clause = getattr(H, "MAX_VIOL_PER_CLAUSE", 2)
        E.lazy_recip = bool(scen.get("lazy_recip", getattr(H, "LAZY_RECIP", False)))
        E.index_mode = scen.get("index_mode", getattr(H, "INDEX_MODE", "obligation"))
        W = world.SymWorld()
        fn = getattr(H, scen.get("fn", "run"))
        path_models = []
        decisions = [0]
        rnd = random.Random(scen.get("seed", 0))

        def one_path():
            nviol = E.nfail
            W.fresh_scratch()
            try:
                r = fn(W, dict(scen["params"]))
            finally:
                decisions[0] += len(E.script)
            if nconf and E.nfail == nviol and (len(path_models) < nconf or rnd.random() < 0.2):
                m = E.current_model()
                if m is not None:
                    if len(path_models) < nconf:
                        path_models.append(m)
                    else:
                        path_models[rnd.randrange(nconf)] = m
            return r

        try:
            results = E.run(one_path, max_paths=scen.get("max_paths", getattr(H, "MAX_PATHS", 20000)),
                            crash_clause=getattr(H, "CRASH_CLAUSE", "no-crash"))
        finally:
            W.cleanup()
        skeletons = sorted({repr(r) for r in results if r is not None and not isinstance(r, BaseException)})
        out.update(
            paths=E.paths, aborted=E.aborted, forks=E.forks, decisions=decisions[0], queries=E.queries, solver_s=round(E.t_solver, 3),
            obligations=E.obligations, discharged=E.discharged, unknown=E.unknown, clauses=E.clauses,
            assumptions=E.assumptions, samples=E.samples, skeletons=skeletons[:2000], nskeletons=len(skeletons),
            violations=[v.as_dict() for v in E.violations],
            functions=sorted(loader.ENTERED), sources=dict(loader.SOURCES),
        )
        if E.unknown:
            out["status"] = "inconclusive"
            out["reason"] = f"{E.unknown} obligations undecided (solver unknown/timeout)"
        if E.truncated:
            out["truncated"] = E.truncated
            if not E.violations:
                out["status"] = "inconclusive"
                out["reason"] = f"{E.truncated} concretisation sites had more than {E.max_values_per_site} feasible integer values (unbounded index or rounding); exploration truncated"
        if E.paths == 0:
            out["status"] = "error"
            out["reason"] = "vacuous: no feasible path completed"
        # --- conformance: models of completed violation-free paths replayed on the real code
        conf = dict(tried=0, agreed=0, mismatched=[])
        for m in path_models:
            res = real_run(hname, scen, m, repo)
            conf["tried"] += 1
            if res["status"] == "ok" and not res["failures"]:
                conf["agreed"] += 1
            else:
                conf["mismatched"].append(dict(model=m, result={k: res.get(k) for k in ("status", "failures", "exception", "message")}))
        out["conformance"] = conf
        # --- replay of violations on the real code
        for v in out["violations"]:
            if v["model"] is None:
                v["replay"] = dict(status="nomodel")
                continue
            res = real_run(hname, scen, v["model"], repo)
            v["replay"] = res
            v["reproduced"] = _reproduced(v, res)
        # --- second solver (thorough): cvc5 binary on the dumped obligations
        if dump and E.dump:
            out["second_solver"] = _cvc5_crosscheck(E.dump, budget_s=dump)
    except BaseException as exc:  # noqa
        from sx import core

        if isinstance(exc, (core.Unsupported, core.Inconclusive)):
            out["status"] = "inconclusive"
        else:
            out["status"] = "error"
        out["reason"] = f"{type(exc).__name__}: {exc}"
        out["traceback"] = traceback.format_exc()[-3000:]
    out["wall"] = round(time.time() - t0, 2)
    return out


def _reproduced(v, res):
    if v["kind"] == "crash":
        # same exception class, or the real one specialises the modelled one (numpy raises subclasses of TypeError/ValueError)
        return res["status"] == "crash" and (res.get("exception") == v["info"].get("exception") or v["info"].get("exception") in res.get("exception_mro", []))
    if v["clause"] == "index-in-range":
        return res["status"] == "crash" and res.get("exception") == "IndexError" or any(f["clause"] == v["clause"] for f in res["failures"])
    return any(f["clause"] == v["clause"] for f in res["failures"])


def real_run(hname, scen, model, repo):
    """run the scenario on the real modules with the concrete values of a model"""
    from sx import world

    H = _load_harness(hname)
    W = world.RealWorld(model, repo)
    W.rtol = getattr(H, "RTOL", W.rtol)
    fn = getattr(H, scen.get("fn", "run"))
    res = dict(status="ok", failures=[], checked=0)
    W.fresh_scratch()
    cwd = os.getcwd()
    import logging

    logging.disable(logging.CRITICAL)
    try:
        import warnings

        with warnings.catch_warnings():
            warnings.simplefilter("ignore")
            fn(W, dict(scen["params"]))
    except world.Diverged as exc:
        res["status"] = "diverged"
        res["message"] = str(exc)
    except (Exception, SystemExit) as exc:
        res["status"] = "crash"
        res["exception"] = type(exc).__name__
        res["exception_mro"] = [c.__name__ for c in type(exc).__mro__ if c.__name__ not in ("Exception", "BaseException", "object")]
        res["message"] = str(exc)[:300]
        res["traceback"] = traceback.format_exc(limit=-5)[-1200:]
    finally:
        os.chdir(cwd)
        W.cleanup()
    res["failures"] = W.failures
    res["checked"] = W.checked
    return res


def _cvc5_crosscheck(dump, budget_s):
    import subprocess

    exe = shutil.which("cvc5")
    res = dict(checked=0, agree=0, disagree=0, unknown=0, errors=0)
    if not exe:
        res["note"] = "cvc5 binary not found"
        return res
    t_end = time.time() + budget_s
    d = tempfile.mkdtemp(prefix="sxcvc_")
    try:
        for i, (smt, expect) in enumerate(dump):
            if time.time() > t_end:
                break
            if "(declare-fun sinh" in smt or "recip!" in smt and False:
                pass
            p = Path(d) / f"o{i}.smt2"
            p.write_text("(set-logic ALL)\n" + smt)
            try:
                r = subprocess.run([exe, "--tlimit=10000", str(p)], capture_output=True, text=True, timeout=15)
                ans = r.stdout.strip().splitlines()[0] if r.stdout.strip() else "unknown"
                if "(error" in r.stdout or "(error" in r.stderr:
                    res["errors"] += 1
                    continue
            except subprocess.TimeoutExpired:
                ans = "unknown"
            res["checked"] += 1
            if ans == expect:
                res["agree"] += 1
            elif ans in ("sat", "unsat") and expect in ("sat", "unsat"):
                res["disagree"] += 1
            else:
                res["unknown"] += 1
    finally:
        shutil.rmtree(d, ignore_errors=True)
    return res


# ------------------------------------------------------------------------------------------ driver
def load_known():
    p = VERIF / "known_findings.json"
    if not p.exists():
        return dict(findings=[], fixed=[])
    return json.loads(p.read_text())


def finding_matches(f, prop, v, sig):
    return f.get("property") == prop and f.get("clause") == v["clause"] and f.get("signature") == sig


def main(argv=None):
    ap = argparse.ArgumentParser()
    ap.add_argument("property")
    ap.add_argument("--tier", default=os.environ.get("VERIF_TIER", "quick"), choices=["quick", "thorough"])
    ap.add_argument("--repo", default=os.environ.get("SX_REPO", "/repo"))
    ap.add_argument("--replay")
    ap.add_argument("--only")
    ap.add_argument("--jobs", type=int, default=int(os.environ.get("SX_JOBS", "0")) or min(16, os.cpu_count() or 4))
    ap.add_argument("--no-evidence", action="store_true")
    ap.add_argument("-v", "--verbose", action="store_true")
    a = ap.parse_args(argv)
    prop = a.property.upper()
    seed = int(os.environ.get("VERIF_SEED", "0") or 0)
    os.environ.setdefault("NUMBA_DISABLE_JIT", "1")
    os.environ["LADIM2_VERIF"] = "1"
    sys.path.insert(0, str(VERIF))
    H = _load_harness(prop)
    t0 = time.time()

    if a.replay:
        rec = json.loads(Path(a.replay).read_text())
        res = real_run(prop, rec["scenario"], rec["model"], a.repo)
        ok = _reproduced(rec["violation"], res)
        print(json.dumps(res, indent=1, default=str)[:4000])
        print("REPRODUCED" if ok else "NOT REPRODUCED")
        return 1 if ok else 0

    scens = H.scenarios(a.tier)
    if a.only:
        scens = [s for s in scens if a.only in s["name"]]
    rnd = random.Random(seed)
    for s in scens:
        s.setdefault("seed", rnd.randrange(1 << 30))
    nconf = getattr(H, "CONFORMANCE_PER_SCENARIO", 2)
    dump = (getattr(H, "CVC5_BUDGET_S", 20) if a.tier == "thorough" else 0)
    jobs = [(prop, s, a.repo, a.tier, nconf, dump) for s in scens]
    # longest first
    order = sorted(range(len(jobs)), key=lambda i: -scens[i].get("cost", 1))
    results = [None] * len(jobs)
    if a.jobs <= 1 or len(jobs) == 1:
        for i in order:
            results[i] = _worker(jobs[i])
    else:
        ctx = mp.get_context("fork")
        with ctx.Pool(min(a.jobs, len(jobs)), maxtasksperchild=4) as pool:
            handles = {i: pool.apply_async(_worker, (jobs[i],)) for i in order}
            budget = getattr(H, "SCENARIO_TIMEOUT_S", {}).get(a.tier, 1500 if a.tier == "quick" else 5400)
            for i, h in handles.items():
                try:
                    results[i] = h.get(timeout=budget)
                except mp.TimeoutError:
                    results[i] = dict(name=scens[i]["name"], status="inconclusive", reason=f"scenario exceeded {budget}s", violations=[], wall=budget)
    return report(prop, H, a, scens, results, seed, time.time() - t0)


def report(prop, H, a, scens, results, seed, wall):
    known = load_known()
    status = 0
    printed = set()
    nviol = 0
    known_hits = {}
    replays_dir = VERIF / "replays" / prop
    problems = []
    agg = dict(paths=0, aborted=0, decisions=0, queries=0, solver_s=0.0, obligations=0, discharged=0, unknown=0)
    clauses = {}
    functions = set()
    sources = {}
    assumptions = list(getattr(H, "ASSUMES", []))
    samples = []
    conf = dict(tried=0, agreed=0, mismatched=0)
    second = dict(checked=0, agree=0, disagree=0, unknown=0, errors=0)
    cex_samples = []
    for s, r in zip(scens, results):
        if r["status"] != "ok":
            problems.append(f"{r['name']}: {r['status']}: {r.get('reason')}")
            if a.verbose and r.get("traceback"):
                print(r["traceback"])
        for k in agg:
            agg[k] += r.get(k, 0) or 0
        for c, st in (r.get("clauses") or {}).items():
            d = clauses.setdefault(c, dict(obligations=0, discharged=0, violated=0, unknown=0))
            for k in d:
                d[k] += st.get(k, 0)
        functions.update(r.get("functions") or [])
        sources.update(r.get("sources") or {})
        for x in r.get("assumptions") or []:
            if x not in assumptions:
                assumptions.append(x)
        if len(samples) < 10:
            for smp in (r.get("samples") or [])[:2]:
                samples.append(dict(scenario=r["name"], **smp))
            for sk in (r.get("skeletons") or [])[:1]:
                samples.append(dict(scenario=r["name"], explored_path_skeleton=sk[:300]))
        c = r.get("conformance") or {}
        conf["tried"] += c.get("tried", 0)
        conf["agreed"] += c.get("agreed", 0)
        conf["mismatched"] += len(c.get("mismatched", []))
        if a.verbose:
            for mm in c.get("mismatched", []):
                print("CONFORMANCE-MISMATCH", r["name"], json.dumps(mm, default=str)[:600])
        for k in second:
            second[k] += (r.get("second_solver") or {}).get(k, 0)
        for v in r.get("violations", []):
            sig = H.signature(v, s) if hasattr(H, "signature") else v["clause"]
            v["signature"] = sig
            if not v.get("reproduced"):
                problems.append(f"{r['name']}: counterexample for clause {v['clause']} did not reproduce on the real code "
                                f"({(v.get('replay') or {}).get('status')}: {(v.get('replay') or {}).get('message') or (v.get('replay') or {}).get('failures')})")
                if a.verbose:
                    print("NON-REPRODUCING", json.dumps(v, default=str)[:700])
                continue
            hit = next((f for f in known.get("findings", []) if finding_matches(f, prop, v, sig)), None)
            if hit is not None:
                known_hits.setdefault((v["clause"], sig), hit)
                continue
            nviol += 1
            key = (v["clause"], sig)
            if key in printed:
                continue
            printed.add(key)
            replays_dir.mkdir(parents=True, exist_ok=True)
            body = dict(property=prop, scenario=dict(name=s["name"], fn=s.get("fn", "run"), params=s["params"]), model=v["model"], violation=dict(clause=v["clause"], kind=v["kind"], info=v["info"]), signature=sig,
                        real_result={k: v["replay"].get(k) for k in ("status", "failures", "exception", "message")})
            h = hashlib.sha1(json.dumps(body, sort_keys=True, default=str).encode()).hexdigest()[:12]
            path = replays_dir / f"{h}.json"
            path.write_text(json.dumps(body, indent=1, default=str))
            print(f"VIOLATION property={prop} replay={path}")
            print(f"  clause={v['clause']} signature={sig} scenario={s['name']} kind={v['kind']} info={json.dumps(v['info'], default=str)[:400]}")
            if len(cex_samples) < 4:
                cex_samples.append(dict(scenario=s["name"], clause=v["clause"], signature=sig, model=v["model"]))
            status = 1
    for (clause, sig), f in known_hits.items():
        print(f"KNOWN-FINDING: property={prop} clause={clause} {sig}: {f.get('what', '')}")
    # vacuity: every declared clause must have been reached and discharged somewhere
    for c in ({} if a.only else getattr(H, "CLAUSES", {})):
        st = clauses.get(c)
        if not st or st["obligations"] == 0:
            problems.append(f"vacuity: clause {c} was never reached")
    if conf["tried"] and conf["mismatched"] * 2 > conf["tried"]:
        problems.append(f"conformance: {conf['mismatched']} of {conf['tried']} path models disagree between shadow and real execution")
    if second["disagree"]:
        problems.append(f"second solver disagrees on {second['disagree']} obligations")
    for p in problems:
        print("PROBLEM:", p)
    if status == 0 and problems:
        status = 2
    bounds = getattr(H, "BOUNDS", {}).get(a.tier, "")
    summary = (f"{prop} tier={a.tier}: scenarios={len(scens)} paths={agg['paths']} obligations={agg['obligations']} discharged={agg['discharged']} "
               f"violations={nviol} known={len(known_hits)} unknown={agg['unknown']} queries={agg['queries']} solver_s={agg['solver_s']:.1f} "
               f"conformance={conf['agreed']}/{conf['tried']} wall={wall:.1f}s -> exit {status}")
    print(summary)
    if not a.no_evidence and not a.only:
        ev = dict(
            property_id=prop, tier=a.tier, seed=seed, level="model_checking",
            coverage=dict(
                states=max(agg["paths"], 0), transitions=max(agg["decisions"], 0) + agg["paths"],
                traces_validated_against_impl=conf["agreed"],
                samples=(samples + cex_samples) or [dict(note="no obligation sample recorded")],
                obligations=agg["obligations"], discharged=agg["discharged"], undecided=agg["unknown"],
                queries=agg["queries"], solver_seconds=round(agg["solver_s"], 2),
                scenarios=[dict(name=r["name"], status=r["status"], paths=r.get("paths"), obligations=r.get("obligations"), discharged=r.get("discharged"), skeletons=r.get("nskeletons"), wall_s=r.get("wall")) for r in results],
                clauses=clauses, bounds=bounds,
                functions_encoded=sorted(functions), source_sha256=sources,
                conformance=conf, second_solver=second,
                known_findings_reported=[dict(clause=c, signature=s_) for (c, s_) in known_hits],
                outside_claim=getattr(H, "OUTSIDE", ""),
                exhaustive=False,
                explanation=("bounded symbolic execution of the repository's own source over z3 terms; states = feasible symbolic paths explored, "
                             "transitions = solver-decided branch outcomes along them; every obligation = one SMT query `path condition and not claim` "
                             "(unsat = holds for all values in the bound)"),
                trusted_base=["z3 5.1.0", "SX shadow loader + symnp + stubs (/verif/sx)", "numba compiles the kernels' Python semantics", "real-number semantics for floats"],
                checker_cmd=f"./check {prop} --tier {a.tier}",
            ),
            assumptions=assumptions + list(getattr(H, "STUBS", [])),
            wall_s=round(wall, 2), violations=nviol, problems=problems,
        )
        ev["coverage"]["states"] = max(1, ev["coverage"]["states"])
        ev["coverage"]["transitions"] = max(1, ev["coverage"]["transitions"])
        (VERIF / "evidence").mkdir(exist_ok=True)
        (VERIF / "evidence" / f"{prop}.json").write_text(json.dumps(ev, indent=1, default=str))
    return status
