"""Shadow loader: exec /repo's source text, unmodified except that float literals become exact
rationals, in modules whose builtins and imports are replaced by symbolic-aware versions."""
from __future__ import annotations

import ast
import builtins
import functools
import hashlib
import importlib as _real_importlib
import os
import sys
import types
from pathlib import Path

import numpy as rnp

from . import stubs, symnp
from .core import E, Q, SB, SN, Fraction, Sym, Unsupported, SENTINELS, is_sym, s_max2, s_min2, to_fraction
from .symnp import DT, SA, TD

REPO = [os.environ.get("SX_REPO", "/repo")]
SHADOW = {}
PLUGINS = {}  # module name -> module object (harness-written plug-ins) or path
ENTERED = set()  # qualified names of repo functions entered
SOURCES = {}  # path -> sha256

NP = symnp.build_module()
NC4 = stubs.build_netcdf4()
PD = stubs.build_pandas()
NUMBA = stubs.build_numba()


# ------------------------------------------------------------------ builtins
class _IntMeta(type):
    def __instancecheck__(cls, o):
        return (builtins.isinstance(o, builtins.int)) or (builtins.isinstance(o, SN) and o.isint)

    def __subclasscheck__(cls, c):
        return builtins.issubclass(c, builtins.int)

    def __eq__(cls, o):
        return o is cls or o is builtins.int

    def __hash__(cls):
        return hash(builtins.int)

    def __or__(cls, o):
        return builtins.int | o

    def __ror__(cls, o):
        return o | builtins.int


class s_int(builtins.int, metaclass=_IntMeta):
    def __new__(cls, x=0, *a):
        if builtins.isinstance(x, SN):
            return x.trunc()
        if builtins.isinstance(x, SB):
            return SN.of(x)
        if builtins.isinstance(x, Fraction):
            return builtins.int(x)
        if builtins.isinstance(x, str) and x in SENTINELS:
            return SENTINELS[x]
        if builtins.isinstance(x, str) and x.isdigit() and any(x.endswith(t) or t in x for t in SENTINELS) and len(x) >= 9:
            raise Unsupported("digit string mixing a sentinel numeral with other digits")
        return builtins.int(x, *a)


class _FloatMeta(type):
    def __instancecheck__(cls, o):
        return builtins.isinstance(o, (builtins.float, Q)) or (builtins.isinstance(o, SN) and not o.isint)

    def __subclasscheck__(cls, c):
        return builtins.issubclass(c, builtins.float)

    def __eq__(cls, o):
        return o is cls or o is builtins.float

    def __hash__(cls):
        return hash(builtins.float)

    def __or__(cls, o):
        return builtins.float | o

    def __ror__(cls, o):
        return o | builtins.float


class s_float(builtins.float, metaclass=_FloatMeta):
    def __new__(cls, x=0.0):
        if builtins.isinstance(x, SN):
            return SN.real(x)
        if builtins.isinstance(x, Fraction):
            return Q(x)
        if builtins.isinstance(x, (builtins.int, rnp.integer)) and not builtins.isinstance(x, builtins.bool):
            return Q(builtins.int(x))
        if builtins.isinstance(x, str):
            return Q(Fraction(x))
        if hasattr(x, "__sx_float__"):
            return x.__sx_float__()
        v = builtins.float(x)
        return Q(to_fraction(v)) if v == v and v not in (builtins.float("inf"), builtins.float("-inf")) else symnp.NAN


def _minmax(name, f2, real):
    def g(*a, **k):
        single = len(a) == 1
        if single:
            a = tuple(a[0])
        if not a:
            return real(a, **k)
        if single and "default" in k:
            k = {kk: vv for kk, vv in k.items() if kk != "default"}  # only used for an empty iterable
        if k:
            return real(*a, **k)
        r = a[0]
        for x in a[1:]:
            if builtins.isinstance(r, (DT, TD)) or builtins.isinstance(x, (DT, TD)):
                cls = type(r)
                rs, xs = r.sec, x.sec
                if is_sym(rs) or is_sym(xs):
                    r = cls.__new__(cls)
                    r.sec = f2(rs, xs)
                else:
                    r = cls.__new__(cls)
                    r.sec = real(rs, xs)
            elif is_sym(r) or is_sym(x):
                r = f2(r, x)
            elif hasattr(r, "sx_minmax") or hasattr(x, "sx_minmax"):
                r = (r if hasattr(r, "sx_minmax") else x).sx_minmax(name, r, x)
            else:
                r = real(r, x)
        return r

    return g


def s_sum(it, start=0):
    r = start
    for x in it:
        r = r + x
    return r


def s_range(*a):
    return builtins.range(*[x.__index__() if is_sym(x) else x for x in a])


def s_abs(x):
    return x.__abs__()


def s_round(x, nd=None):
    if is_sym(x):
        return x.__round__(nd)
    return builtins.round(x, nd) if nd is not None else builtins.round(x)


def make_Q(s):
    return Q(Fraction(s))


def _my_import(name, globals=None, locals=None, fromlist=(), level=0):
    if level:
        raise Unsupported("relative import in shadow module")
    top = name.split(".")[0]
    if top == "numpy":
        return NP
    if top == "numba":
        return NUMBA
    if top == "netCDF4":
        return NC4
    if top == "pandas":
        return PD
    if top == "importlib":
        return IMPORTLIB
    if top == "ladim":
        mod = load(name)
        if fromlist:
            return mod
        return load("ladim")
    if name in PLUGINS and builtins.isinstance(PLUGINS[name], types.ModuleType):
        return PLUGINS[name]
    return _real_import(name, globals, locals, fromlist, level)


_real_import = builtins.__import__

B = dict(vars(builtins))
B.update(
    __import__=_my_import,
    int=s_int,
    float=s_float,
    min=_minmax("min", s_min2, builtins.min),
    max=_minmax("max", s_max2, builtins.max),
    sum=s_sum,
    range=s_range,
    abs=s_abs,
    round=s_round,
    __sx_Q__=make_Q,
)


# ------------------------------------------------------------------ AST: float literals -> exact rationals
class _FloatLit(ast.NodeTransformer):
    def visit_Constant(self, node):
        if builtins.isinstance(node.value, builtins.float):
            return ast.copy_location(
                ast.Call(func=ast.Name(id="__sx_Q__", ctx=ast.Load()), args=[ast.Constant(value=repr(node.value))], keywords=[]), node
            )
        return node


def compile_source(path):
    src = Path(path).read_text()
    SOURCES[str(path)] = hashlib.sha256(src.encode()).hexdigest()
    tree = ast.parse(src, filename=str(path))
    tree = _FloatLit().visit(tree)
    ast.fix_missing_locations(tree)
    return compile(tree, str(path), "exec")


def exec_file(path, modname):
    mod = types.ModuleType(modname)
    mod.__dict__["__builtins__"] = B
    mod.__file__ = str(path)
    exec(compile_source(path), mod.__dict__)
    return mod


def load(name):
    """shadow-load ladim.<x> from the repository working tree"""
    if name in SHADOW:
        return SHADOW[name]
    base = Path(REPO[0])
    if name == "ladim":
        path = base / "ladim" / "__init__.py"
    else:
        path = base / (name.replace(".", "/") + ".py")
    if not path.exists():
        raise ModuleNotFoundError(f"No module named {name!r}")
    mod = types.ModuleType(name)
    mod.__dict__["__builtins__"] = B
    mod.__file__ = str(path)
    mod.__name__ = name
    if name == "ladim":
        mod.__path__ = [str(base / "ladim")]
    SHADOW[name] = mod
    try:
        exec(compile_source(path), mod.__dict__)
    except BaseException:
        del SHADOW[name]
        raise
    if "." in name:
        pkg, _, leaf = name.rpartition(".")
        setattr(load(pkg), leaf, mod)
    return mod


def unload_all():
    SHADOW.clear()


# ------------------------------------------------------------------ importlib proxy (model.load_module)
class _Loader:
    def __init__(self, path):
        self.path = path

    def exec_module(self, module):
        IMPORT_LOG.append(("file", str(self.path)))
        module.__dict__["__builtins__"] = B
        module.__file__ = str(self.path)
        exec(compile_source(self.path), module.__dict__)


IMPORT_LOG = []


class _Util:
    @staticmethod
    def spec_from_file_location(name, location):
        return types.SimpleNamespace(name=name, origin=str(location), loader=_Loader(Path(location)))

    @staticmethod
    def module_from_spec(spec):
        return types.ModuleType(spec.name)


class _ImportlibProxy:
    util = _Util

    @staticmethod
    def import_module(name):
        IMPORT_LOG.append(("name", name))
        if name.startswith("ladim"):
            return load(name)
        if name in PLUGINS:
            p = PLUGINS[name]
            if builtins.isinstance(p, types.ModuleType):
                return p
            return exec_file(p, name)
        # a module on sys.path: run it shadowed too
        for d in sys.path:
            f = Path(d or ".") / (name.replace(".", "/") + ".py")
            if f.exists() and "site-packages" not in str(f) and "/lib/python" not in str(f):
                return exec_file(f, name)
        return _real_importlib.import_module(name)


IMPORTLIB = _ImportlibProxy()


# ------------------------------------------------------------------ which repo functions ran
def start_trace():
    mon = sys.monitoring
    tool = mon.PROFILER_ID
    try:
        mon.use_tool_id(tool, "sx")
    except ValueError:
        return

    def on_start(code, offset):
        fn = code.co_filename
        if fn.startswith(REPO[0]):
            ENTERED.add(f"{Path(fn).relative_to(REPO[0])}:{code.co_qualname}")
        return mon.DISABLE

    mon.register_callback(tool, mon.events.PY_START, on_start)
    mon.set_events(tool, mon.events.PY_START)
