"""Environment stubs for shadow execution: netCDF4 (read + write, one registry), pandas.read_csv,
numba, importlib.  Every stub is part of the claim (DESIGN 3.4)."""
from __future__ import annotations

import importlib as _real_importlib
import inspect
import itertools
import sys
import types
from pathlib import Path

import numpy as rnp
import pandas as rpd

from .core import E, SN, SB, Fraction, Q, Sym, Unsupported, is_sym, to_fraction
from .symnp import DT, SA, TD, _to_obj, _wrap, np_full, _cast_elem, _elem_kind
import z3

# ---------------------------------------------------------------------------------------------
# netCDF4
# ---------------------------------------------------------------------------------------------
FS = {}  # str(path) -> NCFile
NCLOG = []  # ("open"|"create"|"close"|"read", path, varname, key)

_DEFAULT_FILL = {"i": -2147483647, "i4": -2147483647, "i2": -32767, "i8": -9223372036854775806,
                 "f4": Q(Fraction("9.969209968386869e36")), "f8": Q(Fraction("9.969209968386869e36")), "f": Q(Fraction("9.969209968386869e36"))}


class Masked:
    """an unwritten cell read with auto-mask on: skipped by reductions, unsupported in arithmetic"""

    def __repr__(self):
        return "--"

    def _u(self, *a):
        raise Unsupported("arithmetic on a masked (unwritten) NetCDF cell")

    __add__ = __radd__ = __sub__ = __rsub__ = __mul__ = __rmul__ = __lt__ = __le__ = __gt__ = __ge__ = _u


MASKED = Masked()


def reset_fs():
    FS.clear()
    NCLOG.clear()


E.path_hooks.append(reset_fs)


class NCVar:
    def __init__(self, f, name, datatype, dims, fill_value=None):
        object.__setattr__(self, "_f", f)
        object.__setattr__(self, "_name", name)
        object.__setattr__(self, "_datatype", datatype)
        object.__setattr__(self, "dimensions", tuple(dims))
        object.__setattr__(self, "_fill", fill_value)
        object.__setattr__(self, "_cells", {})
        object.__setattr__(self, "_atts", {} if fill_value is None else {"_FillValue": fill_value})  # netCDF4 lists a declared fill value among the attributes

    # attributes -------------------------------------------------------------
    def __setattr__(self, k, v):
        self._f._chk()
        self._atts[k] = v

    def __getattr__(self, k):
        atts = object.__getattribute__(self, "_atts")
        if k in atts:
            return atts[k]
        raise AttributeError(k)

    def ncattrs(self):
        return list(self._atts)

    @property
    def shape(self):
        return tuple(self._f._dimlen[d] for d in self.dimensions)

    @property
    def dtype(self):
        return rnp.dtype({"i": "i4"}.get(self._datatype, self._datatype)) if isinstance(self._datatype, str) else rnp.dtype(float)

    def __len__(self):
        return self.shape[0]

    def getValue(self):
        self._f._chk()
        return self._cells[()]

    # preload ----------------------------------------------------------------
    def _load(self, arr):
        if isinstance(arr, (list, tuple)):
            arr = _to_obj(arr)
        a = _wrap(arr) if not isinstance(arr, rnp.ndarray) or arr.dtype != object else arr
        if not isinstance(a, rnp.ndarray):
            self._cells[()] = _cast_elem(a, "f") if isinstance(a, float) else a
            return
        if a.dtype != object:
            a = SA(a).a
        for idx in rnp.ndindex(a.shape):
            self._cells[idx] = a[idx]
        for d, n in zip(self.dimensions, a.shape):
            self._f._dimlen[d] = max(self._f._dimlen.get(d, 0), n)

    # reading ----------------------------------------------------------------
    def _materialise(self):
        shape = self.shape
        out = rnp.empty(shape, dtype=object)
        raw = not self._f._automask
        if raw:
            fv = self._fill if self._fill is not None else _DEFAULT_FILL.get(self._datatype, MASKED)
        else:
            fv = MASKED
        for idx in rnp.ndindex(shape):
            out[idx] = self._cells.get(idx, fv)
        k = "f"
        if isinstance(self._datatype, str) and self._datatype and self._datatype[0] in "iu":
            k = "i"
        return SA(out, k)

    def __getitem__(self, key):
        self._f._chk()
        NCLOG.append(("read", self._f._path, self._name, key if not isinstance(key, tuple) else tuple(k if isinstance(k, (int, slice)) else "?" for k in key)))
        if self.dimensions == ():
            return self._cells[()]
        arr = self._materialise()
        r = arr[key]
        return r.copy() if isinstance(r, SA) else r

    # writing ----------------------------------------------------------------
    def __setitem__(self, key, val):
        self._f._chk()
        if not isinstance(key, tuple):
            key = (key,)
        if len(key) < len(self.dimensions):
            key = key + (slice(None),) * (len(self.dimensions) - len(key))
        if isinstance(val, SA):
            vals = val.a
        elif hasattr(val, "to_numpy") or isinstance(val, (rnp.ndarray, list, tuple)):
            vals = rnp.asarray(_wrap(val) if not isinstance(val, (list, tuple)) else _to_obj(val), dtype=object)
        else:
            vals = None
        nval = None if vals is None else vals.size
        idxs = []
        free = []  # axes whose extent is fixed by the data
        for ax, (d, k) in enumerate(zip(self.dimensions, key)):
            cur = self._f._dimlen[d]
            unlimited = self._f._dims[d] is None
            if isinstance(k, slice):
                start = 0 if k.start is None else (k.start.__index__() if is_sym(k.start) else int(k.start))
                stop = None if k.stop is None else (k.stop.__index__() if is_sym(k.stop) else int(k.stop))
                if k.step not in (None, 1):
                    raise Unsupported("strided NetCDF write")
                # numpy semantics relative to the current length of the dimension (checked against real netCDF4)
                if start < 0:
                    start = max(0, start + cur)
                if stop is not None and stop < 0:
                    stop = max(0, stop + cur)
                if stop is None:
                    free.append(ax)
                    idxs.append(("open", start, cur, unlimited))
                else:
                    if not unlimited:
                        stop = min(stop, cur)
                    idxs.append(list(range(start, max(start, stop))))
            elif (isinstance(k, SA) and k.kind == "i" and not any(isinstance(x, (bool, rnp.bool_)) for x in k.a.ravel())) or (isinstance(k, rnp.ndarray) and k.dtype.kind in "iu"):
                # integer index array (netCDF4: orthogonal indexing; an unlimited dimension grows as needed)
                ka = k.a if isinstance(k, SA) else k
                sel = []
                for x in ka.ravel():
                    i = x.__index__() if is_sym(x) else int(x)
                    if i < 0:
                        i += cur
                    if i < 0 or (not unlimited and i >= cur):
                        raise IndexError("index exceeds dimension bounds")
                    sel.append(i)
                idxs.append(sel)
            elif isinstance(k, SA) or (isinstance(k, rnp.ndarray) and k.dtype in (bool, object)):
                ka = k.a if isinstance(k, SA) else k
                sel = [i for i, b in enumerate(ka.ravel()) if bool(b)]
                if not unlimited and len(ka) != cur:
                    raise IndexError("boolean index array should have 1 dimension with matching length")
                idxs.append(sel)
            else:
                i = k.__index__() if is_sym(k) else int(k)
                if i < 0:
                    i += cur
                    if i < 0:
                        raise IndexError("index out of range")
                if not unlimited and i >= cur:
                    raise IndexError("index exceeds dimension bounds")
                idxs.append([i])
        # resolve open-ended slices from the data length
        fixed = 1
        for ix in idxs:
            if isinstance(ix, list):
                fixed *= max(len(ix), 0) if ix or True else 1
        for n, ix in enumerate(idxs):
            if isinstance(ix, tuple):
                _, start, cur, unlimited = ix
                if vals is None or nval == 1:
                    stop = cur
                else:
                    other = 1
                    for m, jx in enumerate(idxs):
                        if m != n and isinstance(jx, list):
                            other *= len(jx)
                    want = nval // other if other else 0
                    stop = start + want if unlimited else min(cur, start + want)
                    if not unlimited and want != cur - start:
                        raise IndexError("size of data array does not conform to slice")
                idxs[n] = list(range(start, stop))
        cells = list(itertools.product(*idxs))
        if vals is not None and nval != 1 and nval != len(cells):
            raise IndexError("size of data array does not conform to slice")
        flat = None if vals is None else list(vals.ravel())
        kind = "i" if isinstance(self._datatype, str) and self._datatype[:1] in "iu" else "f"
        for n, c in enumerate(cells):
            v = val if flat is None else (flat[n] if nval > 1 else flat[0])
            if isinstance(v, (DT, TD)):
                raise ValueError("cannot include dtype 'M' in a buffer")  # what netCDF4 raises for a datetime64 array
            self._cells[c] = _cast_elem(v, kind) if not isinstance(v, Masked) else v
            for d, i in zip(self.dimensions, c):
                self._f._dimlen[d] = max(self._f._dimlen[d], i + 1)


class NCFile:
    """netCDF4.Dataset stand-in; registry keyed by path"""

    def __init__(self, filename, mode="r", format="NETCDF4", **kw):
        path = str(filename)
        object.__setattr__(self, "_path", path)
        if mode == "r":
            if path not in FS:
                if Path(path).exists():
                    raise OSError(f"[Errno -51] NetCDF: Unknown file format: '{path}'")
                raise FileNotFoundError(2, f"No such file or directory: '{path}'")
            src = FS[path]
            object.__setattr__(self, "_st", src._st)
            if self._st["open_handles"] and self._st["writer_open"]:
                pass  # reading a file still open for writing: HDF5 would refuse; ladim never does
            self._st["open_handles"] += 1
            object.__setattr__(self, "_open", True)
            object.__setattr__(self, "_automask", True)
            object.__setattr__(self, "_writer", False)
            NCLOG.append(("open", path))
        elif mode == "w":
            st = dict(dims={}, dimlen={}, variables={}, atts={}, open_handles=1, writer_open=True, kw=dict(kw, format=format))
            object.__setattr__(self, "_st", st)
            object.__setattr__(self, "_open", True)
            object.__setattr__(self, "_automask", True)
            object.__setattr__(self, "_writer", True)
            FS[path] = self
            try:
                Path(path).touch()
            except OSError as exc:
                raise PermissionError(str(exc)) from exc
            NCLOG.append(("create", path))
        else:
            raise Unsupported(f"Dataset mode {mode}")

    _dims = property(lambda s: s._st["dims"])
    _dimlen = property(lambda s: s._st["dimlen"])

    @property
    def variables(self):
        self._chk()
        if self._writer:
            return self._st["variables"]
        return {k: _VarView(v, self) for k, v in self._st["variables"].items()}

    @property
    def dimensions(self):
        return {k: types.SimpleNamespace(size=self._dimlen[k], isunlimited=lambda k=k: self._dims[k] is None) for k in self._dims}

    def _chk(self):
        if not self._open:
            raise RuntimeError("NetCDF: Not a valid ID")

    def __setattr__(self, k, v):
        self._chk()
        self._st["atts"][k] = v

    def __getattr__(self, k):
        st = object.__getattribute__(self, "_st")
        if k in st["atts"]:
            return st["atts"][k]
        raise AttributeError(k)

    def ncattrs(self):
        return list(self._st["atts"])

    def createDimension(self, name, size=None):
        self._chk()
        self._dims[name] = size
        self._dimlen[name] = 0 if size is None else int(size)

    def createVariable(self, name, datatype, dimensions=(), fill_value=None, **kw):
        self._chk()
        for d in dimensions:
            if d not in self._dims:
                raise KeyError(d)
        v = NCVar(self, name, datatype, dimensions, fill_value)
        self._st["variables"][name] = v
        return v

    def set_auto_maskandscale(self, flag):
        object.__setattr__(self, "_automask", bool(flag))

    def set_auto_mask(self, flag):
        object.__setattr__(self, "_automask", bool(flag))

    def sync(self):
        self._chk()

    def close(self):
        self._chk()
        object.__setattr__(self, "_open", False)
        self._st["open_handles"] -= 1
        if self._writer:
            self._st["writer_open"] = False
        NCLOG.append(("close", self._path))

    def isopen(self):
        return self._open

    def __enter__(self):
        return self

    def __exit__(self, *a):
        self.close()


class _VarView:
    """variable seen through a reader handle (own open/closed state and mask flag)"""

    def __init__(self, var, handle):
        object.__setattr__(self, "_v", var)
        object.__setattr__(self, "_h", handle)

    def __getattr__(self, k):
        return getattr(self._v, k)

    def __setattr__(self, k, v):
        raise RuntimeError("NetCDF: Write to read only")

    def __len__(self):
        return len(self._v)

    def ncattrs(self):
        return self._v.ncattrs()

    def getValue(self):
        self._h._chk()
        return self._v._cells[()]

    def __getitem__(self, key):
        self._h._chk()
        f = self._v._f
        saved = f._automask
        object.__setattr__(f, "_automask", self._h._automask)
        was_open = f._open
        object.__setattr__(f, "_open", True)
        try:
            NCLOG.append(("readfrom", self._h._path, self._v._name))
            return self._v[key]
        finally:
            object.__setattr__(f, "_automask", saved)
            object.__setattr__(f, "_open", was_open)

    def __setitem__(self, key, val):
        raise RuntimeError("NetCDF: Write to read only")


def register_file(path, dims, variables, atts=None):
    """harness side: put a ready-made (read-only) file into the registry.
    dims: {name: length}; variables: {name: (dims, data, {atts})}"""
    f = NCFile(path, "w")
    for d, n in dims.items():
        f.createDimension(d, None)
        f._dimlen[d] = n
    for name, spec in variables.items():
        vd, data = spec[0], spec[1]
        va = spec[2] if len(spec) > 2 else {}
        dt = va.pop("_datatype", "f8") if isinstance(va, dict) else "f8"
        v = f.createVariable(name, dt, vd)
        v._load(data)
        for k, x in va.items():
            setattr(v, k, x)
    for k, x in (atts or {}).items():
        setattr(f, k, x)
    f.close()
    NCLOG.clear()
    return f


def _as_int_seconds(x, mult):
    """numeric time value * mult seconds -> int seconds (python int or SN int)"""
    if isinstance(x, Masked):
        raise Unsupported("masked time value")
    if is_sym(x):
        x = SN.of(x)
        if x.isint:
            return x * mult
        e = z3.simplify(z3.ToInt(z3.simplify(x.e * mult)))
        if "to_int" in e.sexpr():
            c = SN(x.e * mult).const()
            if c is None or c.denominator != 1:
                raise Unsupported("non-integer symbolic time value")
            return int(c)
        return SN(e)
    f = to_fraction(x) * mult
    if f.denominator != 1:
        raise Unsupported("sub-second time value")
    return int(f)


def num2date(times, units, *a, **k):
    unit, _, ref = units.partition("since")
    unit = unit.strip().lower()
    mult = {"seconds": 1, "second": 1, "s": 1, "minutes": 60, "minute": 60, "hours": 3600, "hour": 3600, "h": 3600, "days": 86400, "day": 86400, "d": 86400}.get(unit)
    if mult is None:
        raise ValueError(f"unsupported time units {units!r}")
    ref = DT(ref.strip().replace(" ", "T") if "DT<" not in ref else ref)

    def one(t):
        return DT(ref.sec + _as_int_seconds(t, mult))

    if isinstance(times, SA):
        return [one(t) for t in times.a.ravel()]
    if isinstance(times, (list, tuple, rnp.ndarray)):
        return [one(t) for t in times]
    return one(times)


def build_netcdf4():
    m = types.ModuleType("netCDF4")
    m.Dataset = NCFile
    m.num2date = num2date
    return m


# ---------------------------------------------------------------------------------------------
# pandas: the real pandas, read_csv replaced
# ---------------------------------------------------------------------------------------------
TABLES = {}  # str(path) -> dict(columns=[...], rows=[[...]], header=bool)


def _reset_tables():
    TABLES.clear()


E.path_hooks.append(_reset_tables)


def register_table(path, columns, rows, header=True):
    TABLES[str(path)] = dict(columns=list(columns), rows=[list(r) for r in rows], header=header)
    try:
        Path(path).touch()
    except OSError:
        pass


def fake_read_csv(filepath_or_buffer, **kw):
    # argument validation by the installed pandas: a keyword it no longer accepts raises TypeError here
    inspect.signature(rpd.read_csv).bind(filepath_or_buffer, **kw)
    path = str(filepath_or_buffer)
    if path not in TABLES:
        raise FileNotFoundError(2, f"No such file or directory: '{path}'")
    t = TABLES[path]
    names = kw.get("names")
    if names is not None and t["header"]:
        # the header line would be parsed as a data row: numeric conversion fails
        raise ValueError("could not convert string to float: 'X'")
    if names is None and not t["header"]:
        raise ValueError("Index release_time invalid")
    cols = list(names) if names is not None else t["columns"]
    if names is not None and len(cols) != len(t["columns"]):
        raise Unsupported("names of different length than the table")
    index_col = kw.get("index_col")
    data = {}
    for j, c in enumerate(cols):
        col = rnp.empty(len(t["rows"]), dtype=object)
        for i, r in enumerate(t["rows"]):
            col[i] = r[j]
        data[c] = col
    # only the columns named in parse_dates become times; any other column holding times stays text
    parsed = set(kw.get("parse_dates") or [])
    from . import symnp as _snp

    for c in data:
        if c not in parsed:
            data[c] = rnp.array([str(x) if isinstance(x, _snp.DT) else x for x in data[c]] + [None], dtype=object)[:-1]
    dtypes = kw.get("dtype") or {}
    for c, tp in dtypes.items():
        if c in data and tp in (int, "int"):
            data[c] = rnp.array([x.__index__() if is_sym(x) else int(x) for x in data[c]], dtype="int64")
    if index_col is not None:
        if index_col not in data:
            raise ValueError(f"Index {index_col} invalid")
        idx = rpd.Index(data.pop(index_col), name=index_col, dtype=object)
        return rpd.DataFrame(data, index=idx)
    return rpd.DataFrame(data)


def _sa_mask(key):
    """a symbolic-numpy boolean array used as a pandas mask -> real numpy bool array (symbolic elements are decided by forking)"""
    from . import symnp

    if isinstance(key, symnp.SA) and (key.kind == "b" or all(isinstance(x, (bool, rnp.bool_, symnp.SB)) for x in key.a.ravel())):
        return rnp.array([bool(x) for x in key.a.ravel()], dtype=bool).reshape(key.a.shape)
    return key


def _patch_pandas_masks():
    if getattr(rpd.DataFrame, "_sx_mask_patch", False):
        return
    for cls in (rpd.DataFrame, rpd.Series):
        orig = cls.__getitem__

        def getitem(self, key, _orig=orig):
            return _orig(self, _sa_mask(key))

        cls.__getitem__ = getitem
    rpd.DataFrame._sx_mask_patch = True


def build_pandas():
    _patch_pandas_masks()
    m = types.ModuleType("pandas")
    for k in dir(rpd):
        try:
            setattr(m, k, getattr(rpd, k))
        except Exception:  # noqa
            pass
    m.read_csv = fake_read_csv
    return m


# ---------------------------------------------------------------------------------------------
# numba
# ---------------------------------------------------------------------------------------------
def build_numba():
    m = types.ModuleType("numba")

    def njit(*a, **k):
        if len(a) == 1 and callable(a[0]) and not k:
            return a[0]
        return lambda f: f

    m.njit = njit
    m.jit = njit
    m.prange = range
    return m
