"""SX core: symbolic scalars over z3, path explorer, obligations.

One Engine per process (module global ``E``).  Values:
  SN  number (z3 Int or Real sort)        SB  boolean
Reals are exact rationals; no binary floats are ever put into a term.
"""
from __future__ import annotations

import builtins
import fractions
import math
import numbers
import time

import numpy as rnp
import z3

Fraction = fractions.Fraction


class Abort(BaseException):
    """Path infeasible (not an error)."""


class Unsupported(BaseException):
    """The engine cannot model what the code just did: the run is inconclusive."""


class Inconclusive(BaseException):
    """Budget exceeded or solver said unknown."""


class Q(Fraction):
    """Exact rational standing for a float literal of the loaded source."""

    __slots__ = ()

    def __repr__(self):
        return f"Q({Fraction.__str__(self)})"


def to_fraction(x):
    if isinstance(x, Fraction):
        return Fraction(x)
    if isinstance(x, (bool, rnp.bool_)):
        return Fraction(int(x))
    if isinstance(x, (int, rnp.integer)):
        return Fraction(int(x))
    if isinstance(x, (float, rnp.floating)):
        f = float(x)
        if f != f or f in (float("inf"), float("-inf")):
            raise Unsupported("nan/inf constant")
        return Fraction(repr(f))  # shortest decimal that round-trips
    raise TypeError(type(x))


def rv(x):
    return z3.RealVal(str(to_fraction(x)))


def z3val(e):
    """z3 numeral -> int / Fraction / bool, else None."""
    if z3.is_int_value(e):
        return e.as_long()
    if z3.is_rational_value(e):
        return Fraction(e.numerator_as_long(), e.denominator_as_long())
    if z3.is_true(e):
        return True
    if z3.is_false(e):
        return False
    if z3.is_algebraic_value(e):
        a = e.approx(30)
        return Fraction(a.numerator_as_long(), a.denominator_as_long())
    return None


class Violation:
    def __init__(self, clause, model, info=None, kind="obligation"):
        self.clause = clause
        self.model = model
        self.info = info or {}
        self.kind = kind

    def as_dict(self):
        return dict(clause=self.clause, model=self.model, info=self.info, kind=self.kind)


class Engine:
    def __init__(self):
        self.path_hooks = []
        self.reset_all()

    # ------------------------------------------------------------------ state
    def reset_all(self):
        self.solver = z3.Solver()
        self.solver.set("timeout", 60000)
        self.queries = 0
        self.t_solver = 0.0
        self.paths = 0
        self.aborted = 0
        self.forks = 0
        self.obligations = 0
        self.discharged = 0
        self.unknown = 0
        self.violations = []
        self.truncated = 0
        self.lazy_recip = False
        self.index_mode = "obligation"  # "python": an out-of-range index raises IndexError on that path (numpy semantics) instead of being an obligation
        self.max_values_per_site = 40
        self.stop_after_failures = 40
        self.stopped_early = False
        self.nfail = 0
        self.viol_per_clause = {}
        self.clauses = {}
        self.assumptions = []
        self.samples = []
        self.vars = {}
        self.script = []
        self.pos = 0
        self.pending = []
        self.pc = []
        self.recip = {}
        self.sqrt = {}
        self.ufaxioms = []
        self.nfresh = 0
        self.obl_timeout_ms = 60000
        self.max_viol_per_clause = 2
        self.dump = None  # list collecting smt2 text of obligations (thorough: second solver)

    reset_all_keep_hooks = reset_all

    def begin_path(self):
        self.pc = []
        self.pos = 0
        self.recip = {}
        self.sqrt = {}
        self.nfresh = 0
        self.vars = {}
        for h in self.path_hooks:
            h()

    # ------------------------------------------------------------------ solver
    def check(self, *extra):
        self.queries += 1
        t = time.time()
        r = self.solver.check(*extra)
        self.t_solver += time.time() - t
        if r == z3.unknown:
            self.unknown += 1
            raise Inconclusive(f"solver unknown on feasibility query: {self.solver.reason_unknown()}")
        return r

    def add(self, c):
        self.solver.add(c)
        self.pc.append(c)

    def assume(self, c, note=None, check=True):
        c = SB.of(c).e
        if note and note not in self.assumptions:
            self.assumptions.append(note)
        self.add(c)
        if check and self.check() != z3.sat:
            raise Abort()

    # ------------------------------------------------------------------ forks
    def fork(self, cond):
        cond = z3.simplify(cond)
        if z3.is_true(cond):
            return True
        if z3.is_false(cond):
            return False
        if self.pos < len(self.script):
            kind, d = self.script[self.pos]
            assert kind == "b", (kind, self.script, self.pos)
            self.pos += 1
        else:
            can_t = self.check(cond) == z3.sat
            can_f = self.check(z3.Not(cond)) == z3.sat
            if can_t and can_f:
                self.pending.append(self.script[: self.pos] + [("b", False)])
                d = True
                self.forks += 1
            elif can_t:
                d = True
            elif can_f:
                d = False
            else:
                raise Abort()
            self.script.append(("b", d))
            self.pos += 1
        self.add(cond if d else z3.Not(cond))
        return d

    def concretize(self, e):
        """z3 Int term -> python int; every feasible value is explored (value recorded in script)."""
        e = z3.simplify(e)
        if z3.is_int_value(e):
            return e.as_long()
        if self.pos < len(self.script):
            kind, val = self.script[self.pos]
            if kind == "eq":
                self.pos += 1
                self.add(e == val)
                return val
            assert kind == "ne" and self.pos == len(self.script) - 1, (kind, self.pos, self.script)
            excluded = list(val)
            self.script.pop()
        else:
            excluded = []
        for x in excluded:
            self.add(e != x)
        if self.check() != z3.sat:
            raise Abort()
        v = self.solver.model().eval(e, model_completion=True).as_long()
        if len(excluded) >= self.max_values_per_site:
            self.truncated += 1  # unbounded enumeration: the run is incomplete from here (reported)
        elif self.check(e != v) == z3.sat:
            self.pending.append(self.script[: self.pos] + [("ne", excluded + [v])])
            self.forks += 1
        self.script.append(("eq", v))
        self.pos += 1
        self.add(e == v)
        return v

    def conc_floor(self, e):
        """floor of a z3 Real term as python int, forking on REAL interval constraints."""
        e = z3.simplify(e)
        v0 = z3val(e)
        if v0 is not None:
            return math.floor(v0)
        if self.pos < len(self.script):
            kind, val = self.script[self.pos]
            if kind == "fl":
                self.pos += 1
                self.add(z3.And(e >= val, e < val + 1))
                return val
            assert kind == "nf" and self.pos == len(self.script) - 1, (kind, self.pos)
            excluded = list(val)
            self.script.pop()
        else:
            excluded = []
        for x in excluded:
            self.add(z3.Or(e < x, e >= x + 1))
        if self.check() != z3.sat:
            raise Abort()
        mv = z3val(z3.simplify(self.solver.model().eval(e, model_completion=True)))
        if mv is None:
            raise Inconclusive("model value of real term not numeric")
        v = math.floor(mv)
        if len(excluded) >= self.max_values_per_site:
            self.truncated += 1
        elif self.check(z3.Or(e < v, e >= v + 1)) == z3.sat:
            self.pending.append(self.script[: self.pos] + [("nf", excluded + [v])])
            self.forks += 1
        self.script.append(("fl", v))
        self.pos += 1
        self.add(z3.And(e >= v, e < v + 1))
        return v

    # ------------------------------------------------------------------ variables
    def fresh(self, name, sort):
        if name in self.vars:
            raise RuntimeError(f"duplicate symbolic variable {name}")
        if sort == "real":
            v = z3.Real(name)
        elif sort == "int":
            v = z3.Int(name)
        else:
            v = z3.Bool(name)
        self.vars[name] = v
        return v

    # ------------------------------------------------------------------ obligations
    def _obligation_solver(self, terms):
        # pure QF_NRA goes to nlsat; everything else to the default portfolio
        if self._nonlinear(terms) and not self._has_int_vars(terms):
            s = z3.Tactic("qfnra-nlsat").solver()
        else:
            s = z3.Solver()
        s.set("timeout", self.obl_timeout_ms)
        return s

    @staticmethod
    def _nonlinear(terms):
        seen = set()
        stack = list(terms)
        while stack:
            t = stack.pop()
            i = t.get_id()
            if i in seen:
                continue
            seen.add(i)
            if z3.is_app(t):
                if t.decl().kind() == z3.Z3_OP_MUL and sum(1 for c in t.children() if z3val(c) is None) >= 2:
                    return True
                stack.extend(t.children())
        return False

    def _has_int_vars(self, terms):
        seen = set()
        stack = list(terms)
        while stack:
            t = stack.pop()
            i = t.get_id()
            if i in seen:
                continue
            seen.add(i)
            if z3.is_app(t):
                if t.num_args() == 0:
                    if t.sort() == z3.IntSort() and not z3.is_int_value(t):
                        return True
                else:
                    k = t.decl().kind()
                    if k in (z3.Z3_OP_TO_INT, z3.Z3_OP_IDIV, z3.Z3_OP_MOD, z3.Z3_OP_UNINTERPRETED):
                        return True
                    stack.extend(t.children())
        return False

    def decide(self, neg_claim):
        """check pc /\\ neg_claim in a fresh solver.  Returns ('unsat'|'sat'|'unknown', model|None)."""
        terms = [z3.simplify(t) for t in (*self.pc, neg_claim)]
        s = self._obligation_solver(terms)
        s.add(*terms)
        self.queries += 1
        t = time.time()
        r = s.check()
        self.t_solver += time.time() - t
        if self.dump is not None and len(self.dump) < 400:
            self.dump.append((s.to_smt2(), str(r)))
        if r == z3.unsat:
            return "unsat", None
        if r == z3.sat:
            m = s.model()
            # re-validate the model exactly
            ok = True
            for c in terms:
                val = z3.simplify(m.eval(c, model_completion=True))
                if z3.is_false(val):
                    ok = False
                    break
            if not ok:
                return "unknown", None
            return "sat", m
        # second chance with the other engine
        s2 = z3.Solver() if not isinstance(s, z3.Solver) or True else None
        s2 = z3.SolverFor("QF_NRA") if not self._has_int_vars(terms) else z3.Solver()
        s2.set("timeout", self.obl_timeout_ms)
        s2.add(*terms)
        t = time.time()
        r = s2.check()
        self.t_solver += time.time() - t
        if r == z3.unsat:
            return "unsat", None
        if r == z3.sat:
            return "sat", s2.model()
        return "unknown", None

    def model_dict(self, m):
        out = {}
        for name, v in self.vars.items():
            val = z3val(z3.simplify(m.eval(v, model_completion=True)))
            if isinstance(val, Fraction):
                out[name] = [val.numerator, val.denominator]
            else:
                out[name] = val
        return out

    def prove(self, claim, clause, info=None, quick=False):
        """Obligation: claim holds on every input reaching this point."""
        claim = SB.of(claim).e
        self.obligations += 1
        st = self.clauses.setdefault(clause, dict(obligations=0, discharged=0, violated=0, unknown=0))
        st["obligations"] += 1
        r = None
        cs = z3.simplify(claim)
        if z3.is_true(cs):
            r, m = "unsat", None
        elif z3.is_false(cs):
            # reachability of this point is all that matters: the incremental core already knows
            r, m = ("sat", self.solver.model()) if self.check() == z3.sat else ("unsat", None)
        if r is None and quick:
            # linear side conditions (index ranges): the incremental core decides them in microseconds
            self.solver.set("timeout", 2000)
            self.queries += 1
            t = time.time()
            try:
                if self.solver.check(z3.Not(claim)) == z3.unsat:
                    r, m = "unsat", None
            finally:
                self.t_solver += time.time() - t
                self.solver.set("timeout", 60000)
        if r is None:
            r, m = self.decide(z3.Not(claim))
        if r == "unsat":
            self.discharged += 1
            st["discharged"] += 1
            if len(self.samples) < 12 and st.get("sampled", 0) < 2:
                txt = cs.sexpr()
                if txt != "true" or st["discharged"] > 50:
                    st["sampled"] = st.get("sampled", 0) + 1
                    self.samples.append(dict(clause=clause, path_conditions=len(self.pc),
                                             claim=(txt[:500] if txt != "true" else "true (both sides are the same term after simplification)"),
                                             query="(check-sat) of: path condition AND (not claim)", result="unsat (discharged)"))
            return True
        if r == "sat":
            st["violated"] += 1
            self.nfail += 1
            n = self.viol_per_clause.get(clause, 0)
            self.viol_per_clause[clause] = n + 1
            if n < self.max_viol_per_clause:
                self.violations.append(Violation(clause, self.model_dict(m), info))
            return False
        st["unknown"] += 1
        self.unknown += 1
        return None

    def reachable(self):
        """vacuity twin: prove(False) must be sat here."""
        return self.check() == z3.sat

    def current_model(self):
        if self.check() != z3.sat:
            return None
        return self.model_dict(self.solver.model())

    # ------------------------------------------------------------------ exploration
    def run(self, fn, max_paths=20000, crash_clause=None, ok_exceptions=()):
        """Explore every feasible path of fn().  fn may call prove/assume/fork.
        An exception escaping fn (other than Abort) is a crash: recorded as a violation of
        crash_clause if given, else re-raised."""
        self.pending = [[]]
        results = []
        while self.pending:
            self.script = self.pending.pop()
            self.solver.push()
            self.begin_path()
            try:
                results.append(fn())
                self.paths += 1
                if crash_clause is not None:
                    # the path ran to completion for every input satisfying its path condition
                    st = self.clauses.setdefault(crash_clause, dict(obligations=0, discharged=0, violated=0, unknown=0))
                    st["obligations"] += 1
                    st["discharged"] += 1
                    self.obligations += 1
                    self.discharged += 1
            except Abort:
                self.aborted += 1
            except (Unsupported, Inconclusive):
                raise
            except ok_exceptions as exc:  # noqa
                results.append(exc)
                self.paths += 1
            except (Exception, SystemExit) as exc:
                if crash_clause is None:
                    raise
                self.paths += 1
                self.obligations += 1
                st = self.clauses.setdefault(crash_clause, dict(obligations=0, discharged=0, violated=0, unknown=0))
                st["obligations"] += 1
                st["violated"] += 1
                self.nfail += 1
                n = self.viol_per_clause.get(crash_clause, 0)
                self.viol_per_clause[crash_clause] = n + 1
                if n < self.max_viol_per_clause:
                    import traceback

                    tb = traceback.format_exc(limit=-6)
                    self.violations.append(
                        Violation(crash_clause, self.current_model(), dict(exception=type(exc).__name__, message=str(exc)[:300], traceback=tb[-1500:]), kind="crash")
                    )
                results.append(exc)
            finally:
                self.solver.pop()
            if self.paths + self.aborted > max_paths:
                raise Inconclusive(f"path budget {max_paths} exceeded")
            if self.nfail >= self.stop_after_failures and self.pending:
                # the check is already failing: completeness no longer matters, stop exploring
                self.stopped_early = True
                break
        return results


E = Engine()


# ---------------------------------------------------------------------- symbolic scalars
class Sym:
    __slots__ = ()


def is_sym(x):
    return isinstance(x, Sym)


class SB(Sym):
    __slots__ = ("e",)

    def __init__(self, e):
        self.e = e

    @staticmethod
    def of(x):
        if isinstance(x, SB):
            return x
        if isinstance(x, (bool, rnp.bool_)):
            return SB(z3.BoolVal(bool(x)))
        if isinstance(x, SN):
            return SB(x.e != 0)
        if z3.is_expr(x):
            return SB(x)
        if isinstance(x, (int, rnp.integer)):
            return SB(z3.BoolVal(bool(x)))
        raise TypeError(f"SB.of({type(x)})")

    def __bool__(self):
        return E.fork(self.e)

    def __invert__(self):
        return SB(z3.Not(self.e))

    def __and__(self, o):
        if not isinstance(o, (SB, bool, rnp.bool_)):
            return NotImplemented
        return SB(z3.And(self.e, SB.of(o).e))

    __rand__ = __and__

    def __or__(self, o):
        if not isinstance(o, (SB, bool, rnp.bool_)):
            return NotImplemented
        return SB(z3.Or(self.e, SB.of(o).e))

    __ror__ = __or__

    def __xor__(self, o):
        if not isinstance(o, (SB, bool, rnp.bool_)):
            return NotImplemented
        return SB(z3.Xor(self.e, SB.of(o).e))

    __rxor__ = __xor__

    def __eq__(self, o):
        if isinstance(o, (SB, bool, rnp.bool_)):
            return SB(self.e == SB.of(o).e)
        if isinstance(o, (SN, int)):
            return SN.of(self) == o
        return NotImplemented

    def __ne__(self, o):
        r = self.__eq__(o)
        return r if r is NotImplemented else ~r

    __hash__ = None

    # arithmetic on booleans (sum(alive), mask * value)
    def _n(self):
        return SN(z3.If(self.e, z3.IntVal(1), z3.IntVal(0)))

    def __add__(self, o):
        return self._n() + o

    __radd__ = __add__

    def __sub__(self, o):
        return self._n() - o

    def __rsub__(self, o):
        return o - self._n()

    def __mul__(self, o):
        return self._n() * o

    __rmul__ = __mul__

    def __lt__(self, o):
        return self._n() < o

    def __gt__(self, o):
        return self._n() > o

    def __le__(self, o):
        return self._n() <= o

    def __ge__(self, o):
        return self._n() >= o

    def __index__(self):
        return int(bool(self))

    def __repr__(self):
        return f"SB({z3.simplify(self.e)})"


_NUM = (numbers.Number, rnp.bool_, rnp.number)


def _num_like(o):
    return isinstance(o, (Sym, *_NUM))


class SN(Sym):
    """number: z3 Int or Real"""

    __slots__ = ("e", "_i")

    def __init__(self, e):
        self.e = e
        self._i = None

    @property
    def isint(self):
        if self._i is None:
            self._i = z3.Z3_get_sort_kind(self.e.ctx_ref(), z3.Z3_get_sort(self.e.ctx_ref(), self.e.as_ast())) == z3.Z3_INT_SORT
        return self._i

    @staticmethod
    def of(x):
        if isinstance(x, SN):
            return x
        if isinstance(x, SB):
            return x._n()
        if isinstance(x, (bool, rnp.bool_)):
            return SN(z3.IntVal(int(x)))
        if isinstance(x, (int, rnp.integer)):
            return SN(z3.IntVal(int(x)))
        if isinstance(x, (float, rnp.floating, Fraction)):
            return SN(rv(x))
        raise TypeError(f"SN.of({type(x)})")

    @staticmethod
    def real(x):
        x = SN.of(x)
        return SN(z3.ToReal(x.e)) if x.isint else x

    def const(self):
        """python value if the term is a numeral, else None"""
        return z3val(z3.simplify(self.e))

    def _co(self, o):
        o = SN.of(o)
        a, b = self.e, o.e
        if self.isint != o.isint:
            if self.isint:
                a = z3.ToReal(a)
            else:
                b = z3.ToReal(b)
        return a, b

    def __add__(self, o):
        if not _num_like(o):
            return NotImplemented
        a, b = self._co(o)
        return SN(a + b)

    __radd__ = __add__

    def __sub__(self, o):
        if not _num_like(o):
            return NotImplemented
        a, b = self._co(o)
        return SN(a - b)

    def __rsub__(self, o):
        if not _num_like(o):
            return NotImplemented
        a, b = self._co(o)
        return SN(b - a)

    def __mul__(self, o):
        if not _num_like(o):
            return NotImplemented
        a, b = self._co(o)
        return SN(a * b)

    __rmul__ = __mul__

    def __neg__(self):
        return SN(-self.e)

    def __pos__(self):
        return self

    def __truediv__(self, o):
        if not _num_like(o):
            return NotImplemented
        a, b = self._co(o)
        if a.sort() == z3.IntSort():
            a, b = z3.ToReal(a), z3.ToReal(b)
        b = z3.simplify(b)
        bv = z3val(b)
        if bv is not None:
            if bv == 0:
                raise ZeroDivisionError("division by zero")
            return SN(a * rv(1 / Fraction(bv)))
        key = b.get_id()
        if key not in E.recip:
            E.recip[key] = (z3.Real(f"recip!{len(E.recip)}"), b)
        r, _ = E.recip[key]
        c = b * r == 1
        if not any(c.eq(x) for x in E.pc):
            # division by zero is a modelling boundary: paths with b == 0 are cut here and
            # must be excluded by the harness (obligation `nonzero`) where it matters
            if E.lazy_recip:
                E.pc.append(c)  # definitional: obligations see it, fork feasibility stays linear
            else:
                E.add(c)
        return SN(a * r)

    def __rtruediv__(self, o):
        if not _num_like(o):
            return NotImplemented
        return SN.of(o).__truediv__(self)

    def __floordiv__(self, o):
        if not _num_like(o):
            return NotImplemented
        a, b = self._co(o)
        if a.sort() != z3.IntSort():
            q = SN(a) / SN(b)
            return SN(rv(E.conc_floor(q.e)))
        if not E.fork(b > 0):
            if not E.fork(b < 0):
                raise ZeroDivisionError("integer division or modulo by zero")
            a, b = -a, -b  # floor(a/b) == floor(-a/-b)
        return SN(a / b)  # z3 int div == floor for positive divisor

    def __rfloordiv__(self, o):
        if not _num_like(o):
            return NotImplemented
        return SN.of(o) // self

    def __mod__(self, o):
        if not _num_like(o):
            return NotImplemented
        q = self // o
        return self - q * o

    def __rmod__(self, o):
        if not _num_like(o):
            return NotImplemented
        return SN.of(o) % self

    def __divmod__(self, o):
        q = self // o
        return q, self - q * o

    def __pow__(self, o):
        if isinstance(o, SN):
            o = o.const()
        if isinstance(o, (int, rnp.integer)) and o >= 0:
            r = SN.of(1)
            for _ in range(int(o)):
                r = r * self
            return r
        if o is not None and to_fraction(o) == Fraction(1, 2):
            return sym_sqrt(self)
        raise Unsupported(f"power {o}")

    def __lt__(self, o):
        if not _num_like(o):
            return NotImplemented
        a, b = self._co(o)
        return SB(a < b)

    def __le__(self, o):
        if not _num_like(o):
            return NotImplemented
        a, b = self._co(o)
        return SB(a <= b)

    def __gt__(self, o):
        if not _num_like(o):
            return NotImplemented
        a, b = self._co(o)
        return SB(a > b)

    def __ge__(self, o):
        if not _num_like(o):
            return NotImplemented
        a, b = self._co(o)
        return SB(a >= b)

    def __eq__(self, o):
        if o is None or isinstance(o, str):
            return False
        if not _num_like(o):
            return NotImplemented
        a, b = self._co(o)
        return SB(a == b)

    def __ne__(self, o):
        if o is None or isinstance(o, str):
            return True
        if not _num_like(o):
            return NotImplemented
        a, b = self._co(o)
        return SB(a != b)

    def __hash__(self):
        if self.isint:
            return hash(E.concretize(self.e))
        c = self.const()
        if c is not None:
            return hash(c)
        raise Unsupported("hash of symbolic real")

    def __index__(self):
        if not self.isint:
            raise TypeError("symbolic real used as index")
        return E.concretize(self.e)

    def __int__(self):
        return self.trunc().__index__()

    def __abs__(self):
        return SN(z3.If(self.e >= 0, self.e, -self.e))

    def __bool__(self):
        return E.fork(self.e != 0)

    def trunc(self):
        if self.isint:
            return self
        if E.fork(self.e >= 0):
            return _floor_term(self.e)
        return -_floor_term(-self.e)

    def floor(self):
        if self.isint:
            return self
        return _floor_term(self.e)

    def rint(self):
        """round half to even (numpy), result is a real numeral"""
        if self.isint:
            return self
        f = E.conc_floor(self.e)
        r = self.e - f
        half = z3.RealVal("1/2")
        if E.fork(r < half):
            v = f
        elif E.fork(r > half):
            v = f + 1
        else:
            v = f if f % 2 == 0 else f + 1
        return SN(z3.RealVal(v))

    def __round__(self, nd=None):
        if nd:
            raise Unsupported("round(x, n)")
        return SN.of(int(self.rint().const()))

    # formatting: sentinel numerals (see DESIGN 3.2)
    def __format__(self, spec=""):
        c = self.const()
        if c is not None:
            if self.isint:
                return format(int(c), spec)
            return format(float(c), spec)
        return sentinel_for(self)

    def __str__(self):
        return self.__format__("")

    def __repr__(self):
        return f"SN({z3.simplify(self.e)})"

    def __float__(self):
        c = self.const()
        if c is None:
            raise Unsupported("float() of a symbolic value at a C boundary")
        return float(c)


def _int_linear(e):
    """e == to_real(i) + c with i an Int term and c a rational constant?  -> (i or None, c) else None"""
    v = z3val(e)
    if v is not None and not isinstance(v, bool):
        return None, Fraction(v)
    if not z3.is_app(e):
        return None
    k = e.decl().kind()
    if k == z3.Z3_OP_TO_REAL:
        return e.arg(0), Fraction(0)
    if k == z3.Z3_OP_ADD:
        it, c = None, Fraction(0)
        for ch in e.children():
            r = _int_linear(ch)
            if r is None:
                return None
            if r[0] is not None:
                it = r[0] if it is None else it + r[0]
            c += r[1]
        return it, c
    if k == z3.Z3_OP_UMINUS:
        r = _int_linear(e.arg(0))
        if r is None:
            return None
        return (None if r[0] is None else -r[0]), -r[1]
    if k == z3.Z3_OP_MUL and e.num_args() == 2:
        a, b = e.arg(0), e.arg(1)
        va = z3val(a)
        if va is not None and Fraction(va).denominator == 1:
            r = _int_linear(b)
            if r is not None:
                n = int(va)
                return (None if r[0] is None else n * r[0]), n * r[1]
    return None


def _floor_sym(e):
    """z3 Int term equal to floor(e) without concretising, or None"""
    r = _int_linear(e)
    if r is not None:
        it, c = r
        fl = math.floor(c)
        return z3.IntVal(fl) if it is None else it + fl
    if z3.is_app(e) and e.decl().kind() == z3.Z3_OP_ITE:
        a, b = _floor_sym(e.arg(1)), _floor_sym(e.arg(2))
        if a is not None and b is not None:
            return z3.If(e.arg(0), a, b)
    return None


def _floor_term(e):
    """floor of a Real term as SN int: symbolic when the term is integer-valued plus a constant
    (or an if-then-else of such), otherwise concretised through real interval constraints
    (never a to_int term)"""
    r = _floor_sym(z3.simplify(e))
    if r is not None:
        return SN(r)
    return SN.of(E.conc_floor(e))


# sentinel numerals: digit strings standing for symbolic non-negative ints in formatted text
SENTINELS = {}
SENT_BASE = [900000000]


def sentinel_for(sn):
    tok = str(SENT_BASE[0] + len(SENTINELS))
    SENTINELS[tok] = sn
    return tok


def sym_sqrt(x):
    x = SN.real(x)
    c = x.const()
    if c is not None:
        if c < 0:
            raise ValueError("sqrt of negative")
        n, d = c.numerator, c.denominator
        rn, rd = math.isqrt(n), math.isqrt(d)
        if rn * rn == n and rd * rd == d:
            return SN(rv(Fraction(rn, rd)))
    key = x.e.get_id()
    if key not in E.sqrt:
        s = z3.Real(f"sqrt!{len(E.sqrt)}")
        E.sqrt[key] = (s, x.e)
        E.add(z3.And(s >= 0, s * s == x.e))
    return SN(E.sqrt[key][0])


def s_min2(a, b):
    x, y = SN.of(a), SN.of(b)
    p, q = x._co(y)
    return SN(z3.If(p <= q, p, q))


def s_max2(a, b):
    x, y = SN.of(a), SN.of(b)
    p, q = x._co(y)
    return SN(z3.If(p >= q, p, q))


def ite(c, a, b):
    c = SB.of(c)
    x, y = SN.of(a), SN.of(b)
    p, q = x._co(y)
    return SN(z3.If(c.e, p, q))


def fresh_real(name):
    return SN(E.fresh(name, "real"))


def fresh_int(name):
    return SN(E.fresh(name, "int"))


def fresh_bool(name):
    return SB(E.fresh(name, "bool"))
