"""symnp: the numpy seen by shadow-loaded ladim modules.

SA = symbolic ndarray: concrete shape, a real numpy object array underneath (so slicing, views,
broadcasting, fancy indexing with concrete indices are numpy's own), elements are python
ints / Fractions / SN / SB / DT / TD (or harness-defined scalars such as jets).
"""
from __future__ import annotations

import builtins
import datetime as _dtm
import functools
import itertools
import math
import types
import typing as _t

import numpy as rnp
import z3

from .core import (E, Q, SB, SN, Abort, Fraction, Sym, Unsupported, is_sym, ite, rv, s_max2, s_min2,
                   sentinel_for, sym_sqrt, to_fraction, SENTINELS)

# ---------------------------------------------------------------------------------------------
# datetime64 / timedelta64 as Int seconds
# ---------------------------------------------------------------------------------------------
_EPOCH = rnp.datetime64("1970-01-01T00:00:00", "s")
_UNITS = {}
for _u in ("W", "D", "h", "m", "s"):
    _UNITS[_u] = int(rnp.timedelta64(1, _u) / rnp.timedelta64(1, "s"))


def _unit_seconds(unit):
    if unit in _UNITS:
        return _UNITS[unit]
    # let numpy raise for unknown units exactly as it would; sub-second / calendar units unsupported
    rnp.timedelta64(1, unit)
    raise Unsupported(f"time unit {unit!r}")


def _sec(x):
    if isinstance(x, SN):
        return x
    if isinstance(x, SB):
        return SN.of(x)
    if isinstance(x, (int, rnp.integer)):
        return int(x)
    if isinstance(x, Fraction) and x.denominator == 1:
        return int(x)
    raise TypeError(f"seconds from {type(x)}")


def _parse_sentinel_time(s):
    """'DT<tok>' strings produced by formatting a symbolic DT map back to the term"""
    s2 = s.strip()
    if s2.startswith("DT<") and s2.endswith(">"):
        return SENTINELS[s2[3:-1]]
    return None


class _TDMeta(type):
    def __instancecheck__(cls, o):
        return type.__instancecheck__(cls, o)


def _elementwise(arr, f):
    out = rnp.empty(arr.shape, dtype=object)
    for idx in rnp.ndindex(arr.shape):
        out[idx] = f(arr[idx])
    return out


class TD(metaclass=_TDMeta):
    """np.timedelta64 stand-in, whole seconds"""

    __slots__ = ("sec",)
    __array_priority__ = 1000

    def __init__(self, v=0, unit=None):
        if isinstance(v, TD):
            self.sec = v.sec
            return
        if isinstance(v, _dtm.timedelta):
            us = (v.days * 86400 + v.seconds) * 1000000 + v.microseconds
            self.sec = us // 1000000
            return
        if isinstance(v, rnp.timedelta64):
            self.sec = int(v.astype("m8[s]").astype(int))
            return
        if isinstance(v, str):
            raise ValueError(f"Could not convert object to NumPy timedelta")
        if v is None:
            raise Unsupported("NaT")
        if isinstance(v, (float, Fraction)) and not isinstance(v, bool) and Fraction(v).denominator != 1:
            raise ValueError("Could not convert object to NumPy timedelta")
        if isinstance(v, SN) and not v.isint:
            raise ValueError("Could not convert object to NumPy timedelta")
        mult = 1 if unit is None else _unit_seconds(unit)
        self.sec = _sec(v) * mult

    def _o(self, o):
        if isinstance(o, TD):
            return o.sec
        if isinstance(o, _dtm.timedelta) and o.microseconds:
            return Fraction(o // _dtm.timedelta(microseconds=1), 10 ** 6)  # comparisons see the sub-second part
        if isinstance(o, rnp.timedelta64) and o != rnp.timedelta64(o, "s"):
            return Fraction(int(o / rnp.timedelta64(1, "us")), 10 ** 6)
        if isinstance(o, (rnp.timedelta64, _dtm.timedelta)):
            return TD(o).sec
        return None

    def __add__(self, o):
        if isinstance(o, DT):
            return DT(o.sec + self.sec)
        b = self._o(o)
        if b is None:
            return NotImplemented
        return TD(self.sec + b)

    __radd__ = __add__

    def __sub__(self, o):
        if isinstance(o, rnp.ndarray):
            return _elementwise(o, lambda x: self - x)
        b = self._o(o)
        if b is None:
            return NotImplemented
        return TD(self.sec - b)

    def __rsub__(self, o):
        if isinstance(o, rnp.ndarray):  # object arrays (pandas on object columns) defer to us (__array_priority__)
            return _elementwise(o, lambda x: x - self)
        b = self._o(o)
        if b is None:
            return NotImplemented
        return TD(b - self.sec)

    def __rfloordiv__(self, o):
        if isinstance(o, rnp.ndarray):
            return _elementwise(o, lambda x: x // self)
        return NotImplemented

    def __rtruediv__(self, o):
        if isinstance(o, rnp.ndarray):
            return _elementwise(o, lambda x: x / self)
        return NotImplemented

    def __neg__(self):
        return TD(-self.sec)

    def __pos__(self):
        return self

    def __abs__(self):
        return TD(abs(self.sec))

    def __mul__(self, k):
        if isinstance(k, (TD, DT, SA)):
            return NotImplemented
        if isinstance(k, (float, Fraction)) and Fraction(k).denominator != 1:
            raise Unsupported("timedelta times non-integer")
        if isinstance(k, SN) and not k.isint:
            c = k.const()
            if c is None or c.denominator != 1:
                raise Unsupported("timedelta times symbolic real")
            k = int(c)
        return TD(self.sec * (int(k) if isinstance(k, Fraction) else k))

    __rmul__ = __mul__

    def __truediv__(self, o):
        b = self._o(o)
        if b is not None:
            if is_sym(self.sec) or is_sym(b):
                return SN.of(self.sec) / SN.of(b)
            return Q(Fraction(self.sec, b))
        raise Unsupported("timedelta / number")

    def __floordiv__(self, o):
        b = self._o(o)
        if b is None:
            raise Unsupported("timedelta // number")
        if is_sym(self.sec) or is_sym(b):
            return SN.of(self.sec) // SN.of(b)
        if b == 0:
            # numpy returns 0 with a warning for m8 // m8(0)
            return 0
        return self.sec // b

    def _cmp(self, o, op):
        b = self._o(o)
        if b is None:
            return NotImplemented
        return op(self.sec, b)

    def __lt__(self, o):
        return self._cmp(o, lambda a, b: a < b)

    def __le__(self, o):
        return self._cmp(o, lambda a, b: a <= b)

    def __gt__(self, o):
        return self._cmp(o, lambda a, b: a > b)

    def __ge__(self, o):
        return self._cmp(o, lambda a, b: a >= b)

    def __eq__(self, o):
        b = self._o(o)
        if b is None:
            return False
        return self.sec == b

    def __ne__(self, o):
        b = self._o(o)
        if b is None:
            return True
        return self.sec != b

    def __hash__(self):
        return hash(("TD", E.concretize(self.sec.e) if is_sym(self.sec) else self.sec))

    def __bool__(self):
        return bool(self.sec != 0)

    def astype(self, t):
        return self

    def real(self):
        """matching real numpy value (only for concrete)"""
        return rnp.timedelta64(int(self.sec), "s")

    def __str__(self):
        if is_sym(self.sec):
            c = self.sec.const()
            if c is None:
                return "TD<" + sentinel_for(self.sec) + ">"
            return str(rnp.timedelta64(int(c), "s"))
        return str(rnp.timedelta64(int(self.sec), "s"))

    def __format__(self, spec):
        return str(self)

    def __repr__(self):
        return f"TD({self.sec})"


class _NaT:
    """not-a-time sentinel: can be stored and moved around, any arithmetic or comparison with it is unsupported"""

    def _u(self, *a):
        raise Unsupported("NaT")

    __add__ = __radd__ = __sub__ = __rsub__ = __lt__ = __le__ = __gt__ = __ge__ = _u

    def __repr__(self):
        return "NaT"


NAT = _NaT()


class DT:
    """np.datetime64[s] stand-in, whole seconds since epoch"""

    __slots__ = ("sec",)
    __array_priority__ = 1000

    def __new__(cls, x="", unit=None):
        if isinstance(x, str) and x == "NaT":
            return NAT  # not a DT: __init__ is skipped
        return object.__new__(cls)

    def __init__(self, x="", unit=None):
        if isinstance(x, DT):
            self.sec = x.sec
        elif isinstance(x, SN):
            self.sec = x
        elif isinstance(x, (int, rnp.integer)) and not isinstance(x, bool):
            self.sec = int(x)
        elif isinstance(x, str):
            t = _parse_sentinel_time(x)
            if t is not None:
                self.sec = t
            else:
                self.sec = int((rnp.datetime64(x, "s") - _EPOCH) / rnp.timedelta64(1, "s"))
        elif isinstance(x, (rnp.datetime64, _dtm.datetime, _dtm.date)):
            v = rnp.datetime64(x, "s")
            if rnp.isnat(v):
                raise Unsupported("NaT")
            self.sec = int((v - _EPOCH) / rnp.timedelta64(1, "s"))
        else:
            # let numpy produce its own error for junk
            rnp.datetime64(x, "s")
            raise Unsupported(f"datetime64 from {type(x)}")

    def __add__(self, o):
        if isinstance(o, rnp.ndarray):
            return _elementwise(o, lambda x: self + x)
        if isinstance(o, (rnp.timedelta64, _dtm.timedelta)):
            o = TD(o)
        if not isinstance(o, TD):
            return NotImplemented
        return DT(_mk(self.sec + o.sec))

    __radd__ = __add__

    def __rsub__(self, o):
        if isinstance(o, rnp.ndarray):  # object arrays (pandas on object columns) defer to us (__array_priority__)
            return _elementwise(o, lambda x: x - self)
        if isinstance(o, (rnp.datetime64, _dtm.datetime)):
            return DT(o) - self
        return NotImplemented

    def __sub__(self, o):
        if isinstance(o, rnp.ndarray):
            return _elementwise(o, lambda x: self - x)
        if isinstance(o, (rnp.datetime64, _dtm.datetime)):
            o = DT(o)
        if isinstance(o, DT):
            return TD(self.sec - o.sec)
        if isinstance(o, (rnp.timedelta64, _dtm.timedelta)):
            o = TD(o)
        if isinstance(o, TD):
            return DT(_mk(self.sec - o.sec))
        return NotImplemented

    def _o(self, o):
        if isinstance(o, DT):
            return o.sec
        if isinstance(o, (rnp.datetime64, _dtm.datetime, str)):
            return DT(o).sec
        return None

    def _cmp(self, o, op):
        b = self._o(o)
        if b is None:
            return NotImplemented
        return op(self.sec, b)

    def __lt__(self, o):
        return self._cmp(o, lambda a, b: a < b)

    def __le__(self, o):
        return self._cmp(o, lambda a, b: a <= b)

    def __gt__(self, o):
        return self._cmp(o, lambda a, b: a > b)

    def __ge__(self, o):
        return self._cmp(o, lambda a, b: a >= b)

    def __eq__(self, o):
        b = self._o(o) if not isinstance(o, str) else None
        if b is None:
            return False
        return self.sec == b

    def __ne__(self, o):
        b = self._o(o) if not isinstance(o, str) else None
        if b is None:
            return True
        return self.sec != b

    def __hash__(self):
        return hash(("DT", E.concretize(self.sec.e) if is_sym(self.sec) else self.sec))

    def __bool__(self):
        return bool(self.sec != 0)  # numpy: datetime64(0) is falsy

    def astype(self, t):
        return self

    def real(self):
        return rnp.datetime64(int(self.sec), "s")

    def __str__(self):
        if is_sym(self.sec):
            c = self.sec.const()
            if c is None:
                return "DT<" + sentinel_for(self.sec) + ">"
            return str(rnp.datetime64(int(c), "s"))
        return str(rnp.datetime64(int(self.sec), "s"))

    def __format__(self, spec):
        return str(self)

    def __repr__(self):
        return f"DT({self.sec})"


def _mk(x):
    return x


# ---------------------------------------------------------------------------------------------
# the array
# ---------------------------------------------------------------------------------------------
def _kind_of_dtype(dtype):
    if dtype is None:
        return None
    if dtype in (bool, "bool", "b", "?", rnp.bool_):
        return "b"
    if dtype in (int, "int", "i", "i4", "i8", "int64", "int32", rnp.int64, rnp.int32):
        return "i"
    if dtype in (float, "float", "f", "f4", "f8", "d", "float64", "float32", rnp.float64, rnp.float32):
        return "f"
    if dtype in ("M8[s]", "datetime64[s]", "M8[ns]", "M"):
        return "M"
    if dtype is object:
        return "O"
    try:
        k = rnp.dtype(dtype).kind
    except TypeError:
        if isinstance(dtype, type) and dtype.__name__ in ("s_int", "int"):
            return "i"
        if isinstance(dtype, type) and dtype.__name__ in ("s_float", "float"):
            return "f"
        raise
    return {"b": "b", "i": "i", "u": "i", "f": "f", "M": "M", "m": "m", "O": "O"}.get(k, "O")


def _elem_kind(x):
    if isinstance(x, (bool, rnp.bool_, SB)):
        return "b"
    if isinstance(x, SN):
        return "i" if x.isint else "f"
    if isinstance(x, (int, rnp.integer)):
        return "i"
    if isinstance(x, DT):
        return "M"
    if isinstance(x, TD):
        return "m"
    return "f"


def _infer_kind(a):
    if a.size == 0:
        return "f"
    ks = {_elem_kind(x) for x in a.ravel()}
    for k in ("M", "m", "f", "i", "b"):
        if k in ks:
            return k
    return "f"


def _cast_elem(x, kind):
    """numpy's casting when a value is stored into an array of the given kind"""
    if kind == "b":
        if isinstance(x, (bool, rnp.bool_)):
            return bool(x)
        if isinstance(x, SB):
            return x
        if isinstance(x, SN):
            return x != 0
        return bool(x)
    if kind == "i":
        if isinstance(x, (bool, rnp.bool_)):
            return int(x)
        if isinstance(x, SB):
            return SN.of(x)
        if isinstance(x, SN):
            return x.trunc()
        if isinstance(x, (int, rnp.integer)):
            return int(x)
        if isinstance(x, (float, Fraction, rnp.floating)):
            return math.trunc(to_fraction(x))
        return x
    if kind == "f":
        if isinstance(x, (bool, rnp.bool_)):
            return int(x)
        if isinstance(x, SB):
            return SN.of(x)
        if isinstance(x, (float, rnp.floating)):
            if x != x:
                return NAN
            return Q(to_fraction(x))
        return x
    return x


class _NaN:
    """named NaN sentinel: propagates through arithmetic, any comparison is unsupported"""

    def _p(self, *a):
        return self

    __add__ = __radd__ = __sub__ = __rsub__ = __mul__ = __rmul__ = __truediv__ = __rtruediv__ = __neg__ = _p

    def _c(self, o):
        raise Unsupported("comparison with NaN")

    __lt__ = __le__ = __gt__ = __ge__ = _c

    def __eq__(self, o):
        return o is self

    def __hash__(self):
        return 7

    def __repr__(self):
        return "NaN"


NAN = _NaN()


def _wrap(x):
    """anything array-like from outside -> object ndarray"""
    if isinstance(x, SA):
        return x.a
    if hasattr(x, "to_numpy"):
        return rnp.asarray(x.to_numpy(), dtype=object)
    if isinstance(x, rnp.ndarray):
        return x.astype(object) if x.dtype != object else x
    return x


def _is_scalar(x):
    return isinstance(x, (Sym, DT, TD, int, float, Fraction, bool, rnp.generic, _NaN, str)) or x is None


class SA:
    __slots__ = ("a", "kind")
    __array_priority__ = 2000
    __array_ufunc__ = None

    def __init__(self, a, kind=None):
        if isinstance(a, SA):
            kind = kind or a.kind
            a = a.a
        if not (isinstance(a, rnp.ndarray) and a.dtype == object):
            if hasattr(a, "to_numpy"):
                a = a.to_numpy()
            if isinstance(a, rnp.ndarray):
                if kind is None and a.dtype != object:
                    kind = _kind_of_dtype(a.dtype)
                if a.dtype.kind == "M":
                    a = rnp.array([DT(x) for x in a.ravel()], dtype=object).reshape(a.shape)
                elif a.dtype.kind == "f":
                    b = rnp.empty(a.shape, dtype=object)
                    for idx in rnp.ndindex(a.shape):
                        b[idx] = _cast_elem(a[idx], "f")
                    a = b
                elif a.dtype != object:
                    a = a.astype(object)
                    for idx in rnp.ndindex(a.shape):
                        v = a[idx]
                        if isinstance(v, rnp.generic):
                            a[idx] = v.item()
            else:
                a = _to_obj(a)
        self.a = a
        self.kind = kind or _infer_kind(a)

    # -------------------------------------------------------------- basic attributes
    shape = property(lambda s: s.a.shape)
    ndim = property(lambda s: s.a.ndim)
    size = property(lambda s: s.a.size)

    @property
    def dtype(self):
        return {"b": rnp.dtype(bool), "i": rnp.dtype("int64"), "f": rnp.dtype("float64"), "M": rnp.dtype("M8[s]"),
                "m": rnp.dtype("m8[s]"), "O": rnp.dtype(object)}[self.kind]

    @property
    def T(self):
        return SA(self.a.T, self.kind)

    def __len__(self):
        return len(self.a)

    def __iter__(self):
        for x in self.a:
            yield SA(x, self.kind) if isinstance(x, rnp.ndarray) else x

    def __array__(self, dtype=None, copy=None):
        return self.a

    # -------------------------------------------------------------- indexing
    def _idx_scalar(self, k, n):
        """symbolic integer index along an axis of length n: obligation + concretise"""
        if isinstance(k, SB):
            k = SN.of(k)
        if not k.isint:
            raise TypeError("non-integer index")
        c = k.const()
        if getattr(E, "index_mode", "obligation") == "python":
            # plain numpy semantics: negative indices wrap, anything else outside raises IndexError on that path
            if c is None:
                if not E.fork(z3.And(k.e >= -n, k.e < n)):
                    raise IndexError(f"index out of bounds for axis with size {n}")
                return E.concretize(k.e)
            if not -n <= int(c) < n:
                raise IndexError(f"index {int(c)} is out of bounds for axis with size {n}")
            return int(c)
        if c is None:
            ok = z3.And(k.e >= 0, k.e < n)
            if E.prove(ok, "index-in-range", dict(axis_len=n), quick=True) is not True:
                E.add(ok)
                if E.check() != z3.sat:
                    raise Abort()
            return E.concretize(k.e)
        c = int(c)
        if not 0 <= c < n:
            E.prove(z3.BoolVal(False), "index-in-range", dict(axis_len=n, index=c))
            raise Abort()
        # an index derived from symbolic data that is in range on this whole path
        st = E.clauses.setdefault("index-in-range", dict(obligations=0, discharged=0, violated=0, unknown=0))
        st["obligations"] += 1
        st["discharged"] += 1
        E.obligations += 1
        E.discharged += 1
        return c

    def _key1(self, k, n):
        if isinstance(k, SA):
            if k.kind == "b" or (k.size and all(isinstance(x, (bool, rnp.bool_, SB)) for x in k.a.ravel())):
                return rnp.array([bool(x) for x in k.a.ravel()], dtype=bool).reshape(k.a.shape)
            return rnp.array([self._idx_scalar(x, n) if is_sym(x) else int(x) for x in k.a.ravel()], dtype=int).reshape(k.a.shape)
        if isinstance(k, Sym):
            return self._idx_scalar(k, n)
        if isinstance(k, slice):
            return slice(*[x.__index__() if is_sym(x) else x for x in (k.start, k.stop, k.step)])
        if isinstance(k, rnp.ndarray) and k.dtype == object:
            return self._key1(SA(k), n)
        if isinstance(k, list):
            return self._key1(SA(_to_obj(k)), n)
        return k

    def _key(self, k):
        if isinstance(k, tuple):
            out = []
            ax = 0
            for x in k:
                if x is None or x is Ellipsis:
                    out.append(x)
                    if x is Ellipsis:
                        ax = self.a.ndim - (len(k) - len(out))
                    continue
                n = self.a.shape[ax] if ax < self.a.ndim else 0
                out.append(self._key1(x, n))
                ax += 1
            return tuple(out)
        return self._key1(k, self.a.shape[0] if self.a.ndim else 0)

    def __getitem__(self, k):
        r = self.a[self._key(k)]
        return SA(r, self.kind) if isinstance(r, rnp.ndarray) else r

    def __setitem__(self, k, v):
        key = self._key(k)
        if isinstance(v, SA):
            v = v.a
        elif hasattr(v, "to_numpy"):
            v = _wrap(v)
        if isinstance(v, rnp.ndarray):
            if v.dtype != object:
                v = SA(v).a
            w = rnp.empty(v.shape, dtype=object)
            for idx in rnp.ndindex(v.shape):
                w[idx] = _cast_elem(v[idx], self.kind)
            self.a[key] = w
        elif isinstance(v, (list, tuple)):
            self.a[key] = _to_obj([_cast_elem(x, self.kind) for x in v])
        else:
            # scalar: assign without numpy trying to iterate it
            tgt = self.a[key]
            if isinstance(tgt, rnp.ndarray):
                w = rnp.empty(tgt.shape, dtype=object)
                cv = _cast_elem(v, self.kind)
                for idx in rnp.ndindex(tgt.shape):
                    w[idx] = cv
                self.a[key] = w
            else:
                self.a[key] = _cast_elem(v, self.kind)

    # -------------------------------------------------------------- arithmetic
    def _res(self, r, kind):
        if isinstance(r, rnp.ndarray):
            return SA(r, kind)
        return r

    def _bk(self, o, div=False):
        ok = o.kind if isinstance(o, SA) else _elem_kind(o) if _is_scalar(o) else _infer_kind(rnp.asarray(_wrap(o), dtype=object))
        ks = {self.kind, ok}
        if "M" in ks or "m" in ks:
            return None
        if div or "f" in ks:
            return "f"
        if "i" in ks:
            return "i"
        return "i" if ks == {"b"} else None

    def _bin(self, o, f, div=False):
        if isinstance(o, (dict, str)) or o is None:
            return NotImplemented
        r = f(self.a, _scalar_box(_wrap(o)))
        k = self._bk(o, div)
        return SA(r, k) if isinstance(r, rnp.ndarray) else r

    def __add__(self, o):
        return self._bin(o, rnp.add)

    def __radd__(self, o):
        return self._bin(o, lambda a, b: rnp.add(b, a))

    def __sub__(self, o):
        return self._bin(o, rnp.subtract)

    def __rsub__(self, o):
        return self._bin(o, lambda a, b: rnp.subtract(b, a))

    def __mul__(self, o):
        return self._bin(o, rnp.multiply)

    def __rmul__(self, o):
        return self._bin(o, lambda a, b: rnp.multiply(b, a))

    def __truediv__(self, o):
        return self._bin(o, _truediv_obj, div=True)

    def __rtruediv__(self, o):
        return self._bin(o, lambda a, b: _truediv_obj(b, a), div=True)

    def __floordiv__(self, o):
        return self._bin(o, rnp.floor_divide)

    def __mod__(self, o):
        return self._bin(o, rnp.remainder)

    def __pow__(self, o):
        return SA(_map(lambda x: _pow(x, o), self.a), "f" if self.kind == "f" or not isinstance(o, int) else self.kind)

    def __neg__(self):
        return SA(_map(lambda x: -x, self.a), self.kind)

    def __pos__(self):
        return self

    def __abs__(self):
        return SA(_map(abs, self.a), self.kind)

    def _inplace(self, r):
        if isinstance(r, SA):
            r = r.a
        if isinstance(r, rnp.ndarray):
            w = rnp.empty(r.shape, dtype=object)
            for idx in rnp.ndindex(r.shape):
                w[idx] = _cast_elem(r[idx], self.kind)
            self.a[...] = w
        else:
            self.a[...] = _cast_elem(r, self.kind)
        return self

    def __iadd__(self, o):
        return self._inplace(self + o)

    def __isub__(self, o):
        return self._inplace(self - o)

    def __imul__(self, o):
        return self._inplace(self * o)

    def __itruediv__(self, o):
        return self._inplace(self / o)

    # -------------------------------------------------------------- comparisons / logic
    def _cmp(self, o, f):
        if isinstance(o, str) or o is None:
            return NotImplemented
        return SA(f(_lift(self.a), _scalar_box(_wrap(o)), dtype=object), "b")

    def __lt__(self, o):
        return self._cmp(o, rnp.less)

    def __le__(self, o):
        return self._cmp(o, rnp.less_equal)

    def __gt__(self, o):
        return self._cmp(o, rnp.greater)

    def __ge__(self, o):
        return self._cmp(o, rnp.greater_equal)

    def __eq__(self, o):
        return self._cmp(o, rnp.equal)

    def __ne__(self, o):
        return self._cmp(o, rnp.not_equal)

    __hash__ = None

    def __invert__(self):
        if self.kind == "i":
            # numpy: bitwise not of an integer array, ~x == -x - 1 (an int8 0/1 flag read back from a file is NOT negated logically)
            return SA(_map(lambda x: -(int(x) if isinstance(x, (bool, rnp.bool_)) else x) - 1, self.a), "i")
        if self.kind == "f":
            raise TypeError("ufunc 'invert' not supported for the input types")
        return SA(_map(lambda x: (not x) if isinstance(x, (bool, rnp.bool_)) else ~SB.of(x), self.a), "b")

    def _logic(self, o, op):
        oa = _wrap(o)
        if isinstance(oa, rnp.ndarray):
            a, b = rnp.broadcast_arrays(self.a, oa)
            out = rnp.empty(a.shape, dtype=object)
            for idx in rnp.ndindex(a.shape):
                out[idx] = op(a[idx], b[idx])
            return SA(out, "b")
        return SA(_map(lambda x: op(x, oa), self.a), "b")

    def __and__(self, o):
        return self._logic(o, _and)

    __rand__ = __and__

    def __or__(self, o):
        return self._logic(o, _or)

    __ror__ = __or__

    def __bool__(self):
        if self.a.size != 1:
            raise ValueError("The truth value of an array with more than one element is ambiguous. Use a.any() or a.all()")
        return bool(self.a.ravel()[0])

    # -------------------------------------------------------------- methods
    def copy(self):
        return SA(self.a.copy(), self.kind)

    def ravel(self, order="C"):
        # the wrapped object array has a memory layout of its own (a transposed view is not C-contiguous): numpy's rules apply
        return SA(self.a.ravel(order=order), self.kind)

    def flatten(self, order="C"):
        return SA(self.a.flatten(order=order), self.kind)

    def reshape(self, *shape):
        if len(shape) == 1 and isinstance(shape[0], (tuple, list)):
            shape = tuple(shape[0])
        return SA(self.a.reshape(shape), self.kind)

    def tolist(self):
        return self.a.tolist()

    def item(self):
        return self.a.item()

    def round(self, decimals=0):
        if decimals:
            raise Unsupported("round(decimals)")
        return SA(_map(_rint, self.a), self.kind)

    def astype(self, t, copy=True):
        k = _kind_of_dtype(t)
        if k == "M" and self.a.size and any(isinstance(x, str) for x in self.a.ravel()):
            return SA(_map(lambda x: DT(x) if isinstance(x, str) else x, self.a), "M")  # ISO text -> datetime64
        if k in ("M", "m") and self.kind in ("f", "i") and self.a.size and not isinstance(self.a.flat[0], (DT, TD, str)):
            # numbers -> whole seconds (numpy truncates towards zero); only second resolution is modelled
            if "[" in str(t) and "[s]" not in str(t):
                raise Unsupported(f"astype({t!r}) on numbers: only second resolution is modelled")
            cls = DT if k == "M" else TD

            def conv(x):
                o = cls.__new__(cls)
                o.sec = _cast_elem(x, "i")
                return o

            return SA(_map(conv, self.a), k)
        if k == "M" and self.a.size and any(isinstance(x, str) for x in self.a.ravel()):
            return SA(_map(lambda x: DT(x) if isinstance(x, str) else x, self.a), "M")  # ISO text -> datetime64
        if k in ("M", "m", "O") or k == self.kind:
            return SA(self.a.copy(), self.kind if k != "O" else "O")
        return SA(_map(lambda x: _cast_elem(x, k), self.a), k)

    def sum(self, axis=None):
        return np_sum(self, axis)

    def max(self, axis=None, initial=None):
        if initial is not None:
            return np_max(SA(rnp.concatenate([self.a.ravel(), _to_obj([initial])]), self.kind), axis)
        return np_max(self, axis)

    def min(self, axis=None, initial=None):
        if initial is not None:
            return np_min(SA(rnp.concatenate([self.a.ravel(), _to_obj([initial])]), self.kind), axis)
        return np_min(self, axis)

    def any(self):
        return np_any(self)

    def all(self):
        return np_all(self)

    def nonzero(self):
        if self.a.ndim != 1:
            raise Unsupported("nonzero nd")
        return (SA(rnp.array([i for i, x in enumerate(self.a) if bool(x)], dtype=object), "i"),)

    def repeat(self, n):
        return SA(self.a.repeat(_conc_counts(n)), self.kind)

    def fill(self, v):
        self[...] = v

    def clip(self, lo=None, hi=None, out=None):
        r = self
        if lo is not None:
            r = SA(_map(lambda x: _max2(x, lo), r.a), self.kind)
        if hi is not None:
            r = SA(_map(lambda x: _min2(x, hi), r.a), self.kind)
        if out is not None:
            out._inplace(r)
            return out
        return r

    def mean(self, axis=None):
        if axis is not None:
            raise Unsupported("mean(axis)")
        n = self.a.size
        if n == 0:
            raise Unsupported("mean of empty array (nan)")
        return np_sum(self) / n

    def prod(self, axis=None):
        r = 1
        for x in self.a.ravel():
            r = r * x
        return r

    def cumsum(self):
        return np_cumsum(self)

    def squeeze(self):
        return SA(self.a.squeeze(), self.kind)

    def transpose(self, *axes):
        return SA(self.a.transpose(*axes), self.kind)

    def take(self, idx, axis=None):
        return self[idx] if axis is None else SA(self.a.take(SA(idx)._key1(SA(idx), self.a.shape[axis]) if isinstance(idx, SA) else idx, axis=axis), self.kind)

    def argmax(self):
        xs = list(self.a.ravel())
        best = 0
        for i in range(1, len(xs)):
            if bool(xs[i] > xs[best]):
                best = i
        return best

    def argmin(self):
        xs = list(self.a.ravel())
        best = 0
        for i in range(1, len(xs)):
            if bool(xs[i] < xs[best]):
                best = i
        return best

    def __getattr__(self, name):
        # an ndarray method the symbolic array does not model: inconclusive, never a bogus crash
        if not name.startswith("__") and hasattr(rnp.ndarray, name):
            raise Unsupported(f"ndarray.{name} is not modelled by the symbolic array")
        raise AttributeError(name)

    def __repr__(self):
        return f"SA<{self.kind}>({self.a.tolist()})"


def _scalar_box(x):
    """DT/TD scalars must not be iterated or coerced by numpy: box into 0-d object arrays"""
    if isinstance(x, rnp.ndarray) or isinstance(x, (int, Fraction, bool)):
        return x
    b = rnp.empty((), dtype=object)
    b[()] = x if not isinstance(x, (float, rnp.floating)) else _cast_elem(x, "f")
    return b


def _to_obj(x):
    """nested lists / scalars -> object ndarray without numpy trying to coerce Sym objects"""
    if isinstance(x, rnp.ndarray):
        return x if x.dtype == object else SA(x).a
    if isinstance(x, SA):
        return x.a
    if isinstance(x, (list, tuple, range)) or isinstance(x, types.GeneratorType):
        x = list(x)
        if not x:
            return rnp.empty((0,), dtype=object)
        subs = [_to_obj(e) for e in x]
        shp = subs[0].shape
        if any(s.shape != shp for s in subs):
            raise ValueError("inhomogeneous shape")
        out = rnp.empty((len(subs), *shp), dtype=object)
        for i, s in enumerate(subs):
            out[i] = s if s.ndim else s[()]
        return out
    b = rnp.empty((), dtype=object)
    if isinstance(x, (float, rnp.floating)):
        x = _cast_elem(x, "f")
    elif isinstance(x, rnp.generic):
        x = x.item()
    b[()] = x
    return b


def _map(f, a):
    out = rnp.empty(a.shape, dtype=object)
    for idx in rnp.ndindex(a.shape):
        out[idx] = f(a[idx])
    return out


def _lift(a):
    """comparison ufuncs on object arrays need elements that return symbolic booleans"""
    return a


def _truediv_obj(a, b):
    def d(x, y):
        if isinstance(x, (int, rnp.integer)) and isinstance(y, (int, rnp.integer)) and not isinstance(x, bool):
            if y == 0:
                raise ZeroDivisionError
            return Fraction(int(x), int(y))
        if isinstance(y, (int, Fraction)) and not is_sym(x) and not isinstance(x, (DT, TD, _NaN)) and y == 0:
            raise Unsupported("division by zero constant (inf)")
        return x / y

    return rnp.frompyfunc(d, 2, 1)(a, b)


def _pow(x, o):
    if is_sym(x):
        return x ** o
    if isinstance(o, (float, Fraction)) and to_fraction(o) == Fraction(1, 2):
        return sym_sqrt(SN.of(x))
    if isinstance(o, (int, rnp.integer)):
        return x ** int(o)
    oc = to_fraction(o) if not is_sym(o) else o.const()
    if oc is not None and oc.denominator == 1:
        return x ** int(oc)
    raise Unsupported(f"power {o}")


def _rint(x):
    if isinstance(x, (int, rnp.integer)):
        return x
    if isinstance(x, SN):
        return x.rint()
    if hasattr(x, "rint"):
        return x.rint()
    f = to_fraction(x)
    fl = math.floor(f)
    r = f - fl
    if r < Fraction(1, 2):
        v = fl
    elif r > Fraction(1, 2):
        v = fl + 1
    else:
        v = fl if fl % 2 == 0 else fl + 1
    return Q(v)


def _and(a, b):
    if isinstance(a, (bool, rnp.bool_)) and isinstance(b, (bool, rnp.bool_)):
        return bool(a) and bool(b)
    return SB.of(a) & SB.of(b)


def _or(a, b):
    if isinstance(a, (bool, rnp.bool_)) and isinstance(b, (bool, rnp.bool_)):
        return bool(a) or bool(b)
    return SB.of(a) | SB.of(b)


def _conc_counts(n):
    if isinstance(n, SA):
        return rnp.array([int(x.__index__()) if is_sym(x) else int(x) for x in n.a.ravel()], dtype=int)
    if hasattr(n, "to_numpy"):
        return _conc_counts(SA(n))
    if is_sym(n):
        return n.__index__()
    return n


# ---------------------------------------------------------------------------------------------
# module-level numpy functions
# ---------------------------------------------------------------------------------------------
def np_array(x, dtype=None, copy=True):
    k = _kind_of_dtype(dtype)
    if isinstance(x, SA):
        r = SA(x.a.copy(), x.kind)
    elif _is_scalar(x) and not isinstance(x, str):
        r = SA(_to_obj(x))
    else:
        r = SA(_to_obj(x) if not hasattr(x, "to_numpy") and not isinstance(x, rnp.ndarray) else x)
    if k and k != r.kind:
        if r.size == 0:
            r.kind = k
        else:
            r = r.astype(k)
    return r


def np_asarray(x, dtype=None):
    if isinstance(x, SA) and (dtype is None or _kind_of_dtype(dtype) == x.kind):
        return x
    return np_array(x, dtype)


def _shape(n):
    if isinstance(n, (tuple, list)):
        return tuple(x.__index__() if is_sym(x) else int(x) for x in n)
    return (n.__index__() if is_sym(n) else int(n),)


def np_full(shape, v, dtype=None):
    out = rnp.empty(_shape(shape), dtype=object)
    k = _kind_of_dtype(dtype) or _elem_kind(v)
    cv = _cast_elem(v, k)
    for idx in rnp.ndindex(out.shape):
        out[idx] = cv
    return SA(out, k)


def np_zeros(shape, dtype=float):
    k = _kind_of_dtype(dtype) or "f"
    return np_full(shape, False if k == "b" else 0, dtype)


def np_ones(shape, dtype=float):
    k = _kind_of_dtype(dtype) or "f"
    return np_full(shape, True if k == "b" else 1, dtype)


def np_empty(shape, dtype=float):
    return np_full(shape, 0, dtype)


def np_zeros_like(x, dtype=None):
    if isinstance(x, SA):
        return np_full(x.shape, False if x.kind == "b" else 0, {"b": bool, "i": int}.get(x.kind, float) if dtype is None else dtype)
    if hasattr(x, "to_numpy"):
        return np_zeros_like(SA(x))
    return 0


def np_arange(a, b=None, step=None, dtype=None):
    if isinstance(a, DT):
        out = []
        t = a
        fwd = bool(step.sec > 0)
        if not fwd and not bool(step.sec < 0):
            raise ZeroDivisionError("Maximum allowed size exceeded")
        while bool((t < b) if fwd else (t > b)):
            out.append(t)
            t = t + step
            if len(out) > 64:
                raise Unsupported("arange over datetimes longer than 64")
        return SA(_to_obj(out) if out else rnp.empty((0,), dtype=object), "M")
    args = [x.__index__() if is_sym(x) else x for x in (a, b, step) if x is not None]
    if all(isinstance(x, (int, rnp.integer)) for x in args):
        return SA(rnp.arange(*args).astype(object), "i")
    raise Unsupported("arange with non-integer arguments")


def np_linspace(a, b, n):
    n = n.__index__() if is_sym(n) else int(n)
    a, b = to_fraction(a) if not is_sym(a) else a, to_fraction(b) if not is_sym(b) else b
    if n == 1:
        return SA(_to_obj([a]), "f")
    return SA(_to_obj([a + (b - a) * Fraction(i, n - 1) for i in range(n)]), "f")


def np_concatenate(seq, axis=0):
    seq = list(seq)
    arrs = [rnp.asarray(_wrap(x), dtype=object) if not isinstance(x, SA) else x.a for x in seq]
    kinds = [x.kind if isinstance(x, SA) else None for x in seq]
    nonempty = [k for k, a in zip(kinds, arrs) if k and a.size]
    kind = None
    for k in ("M", "m", "f", "i", "b"):
        if k in (nonempty or [k for k in kinds if k]):
            kind = k
            break
    return SA(rnp.concatenate(arrs, axis=axis), kind)


def np_searchsorted(arr, v, side="left"):
    """sorted arr assumed (numpy does too).  left: #elements < v ; right: #elements <= v"""
    n = 0
    for x in _wrap(arr):
        c = (x < v) if side == "left" else (x <= v)
        n = n + (SN.of(c) if is_sym(c) else int(bool(c)))
    return n if is_sym(n) else SN.of(n)


class _Bc:
    def __init__(self, *vals):
        shapes = []
        for v in vals:
            v = _wrap(v)
            shapes.append(v.shape if isinstance(v, rnp.ndarray) else rnp.shape(v) if not _is_scalar(v) else ())
        b = rnp.broadcast_shapes(*shapes)
        self.shape = b
        self.ndim = len(b)
        self.size = int(rnp.prod(b)) if b else 1


def np_broadcast_to(v, shape):
    w = _wrap(v)
    if not isinstance(w, rnp.ndarray):
        k = _elem_kind(w)
        return np_full(shape, w, {"b": bool, "i": int, "f": float}.get(k))
    kind = v.kind if isinstance(v, SA) else None
    return SA(rnp.broadcast_to(w, _shape(shape)), kind)


def np_diff(a):
    a = list(_wrap(a)) if not isinstance(a, list) else a
    return SA(_to_obj([a[i + 1] - a[i] for i in range(len(a) - 1)]) if len(a) > 1 else rnp.empty((0,), dtype=object), "i")


def np_any(a):
    if not isinstance(a, SA):
        a = SA(_to_obj(a) if not hasattr(a, "to_numpy") else a)
    r = False
    for x in a.a.ravel():
        r = _or(r, x if isinstance(x, (bool, rnp.bool_, SB)) else (x != 0))
    return r


def np_all(a):
    if not isinstance(a, SA):
        a = SA(_to_obj(a) if not hasattr(a, "to_numpy") else a)
    r = True
    for x in a.a.ravel():
        r = _and(r, x if isinstance(x, (bool, rnp.bool_, SB)) else (x != 0))
    return r


def np_sum(a, axis=None):
    if not isinstance(a, SA):
        a = SA(_to_obj(a) if not hasattr(a, "to_numpy") else a)
    if axis is not None:
        raise Unsupported("sum(axis)")
    r = 0
    for x in a.a.ravel():
        r = r + (SN.of(x) if isinstance(x, SB) else int(x) if isinstance(x, (bool, rnp.bool_)) else x)
    return r


def _reduce_minmax(a, f2, name):
    if not isinstance(a, SA):
        a = SA(_to_obj(a) if not hasattr(a, "to_numpy") else a)
    xs = list(a.a.ravel())
    if not xs:
        raise ValueError(f"zero-size array to reduction operation {name} which has no identity")
    r = xs[0]
    for x in xs[1:]:
        if is_sym(r) or is_sym(x):
            r = f2(r, x)
        else:
            r = builtins.max(r, x) if name == "maximum" else builtins.min(r, x)
    return r


def np_max(a, axis=None, initial=None):
    if initial is not None:
        return (a if isinstance(a, SA) else SA(_to_obj(a))).max(initial=initial)
    if axis is not None:
        raise Unsupported("max(axis)")
    return _reduce_minmax(a, s_max2, "maximum")


def np_min(a, axis=None, initial=None):
    if initial is not None:
        return (a if isinstance(a, SA) else SA(_to_obj(a))).min(initial=initial)
    if axis is not None:
        raise Unsupported("min(axis)")
    return _reduce_minmax(a, s_min2, "minimum")


def np_where(c, a, b):
    ca, aa, ba = _wrap(c), _wrap(a), _wrap(b)
    ca, aa, ba = rnp.broadcast_arrays(*[x if isinstance(x, rnp.ndarray) else _scalar_box(x) if not isinstance(x, (int, bool, Fraction)) else rnp.asarray(x, dtype=object) for x in (ca, aa, ba)])
    out = rnp.empty(ca.shape, dtype=object)
    for idx in rnp.ndindex(ca.shape):
        cc, x, y = ca[idx], aa[idx], ba[idx]
        if isinstance(x, (float, rnp.floating)):
            x = _cast_elem(x, "f")
        if isinstance(y, (float, rnp.floating)):
            y = _cast_elem(y, "f")
        if isinstance(cc, (bool, rnp.bool_)):
            out[idx] = x if cc else y
        elif x is y:
            out[idx] = x
        else:
            cz = z3.simplify(SB.of(cc).e)
            if z3.is_true(cz):
                out[idx] = x
            elif z3.is_false(cz):
                out[idx] = y
            elif hasattr(x, "ite_with") or hasattr(y, "ite_with"):
                out[idx] = x if bool(cc) else y
            else:
                out[idx] = ite(cc, x, y)
    if out.ndim == 0:
        return out[()]
    return SA(out)


def np_copyto(dst, src, casting="same_kind", where=True):
    """numpy.copyto: dst[where] = src[where] (src and where broadcast to dst)"""
    if not isinstance(dst, SA):
        raise Unsupported("numpy.copyto into something that is no array")
    r = np_where(where, src, dst)
    if not isinstance(r, SA) or r.shape != dst.shape:
        r = np_broadcast_to(r, dst.shape)
    dst._inplace(r)


def np_putmask(a, mask, values):
    """numpy.putmask for a scalar or a full-size values array (the repeating form is not modelled)"""
    if not isinstance(a, SA):
        raise Unsupported("numpy.putmask into something that is no array")
    v = _wrap(values)
    if isinstance(v, rnp.ndarray) and v.shape != a.shape:
        if v.size == 1:
            values = v.ravel()[0]
        else:
            raise Unsupported("numpy.putmask with values of another shape")
    r = np_where(mask, values, a)
    if not isinstance(r, SA) or r.shape != a.shape:
        r = np_broadcast_to(r, a.shape)
    a._inplace(r)


def np_append(arr, values, axis=None):
    if axis is not None:
        raise Unsupported("numpy.append with an axis")
    a = arr.ravel() if isinstance(arr, SA) else np_array(arr if isinstance(arr, (list, tuple)) else [arr])
    v = values.ravel() if isinstance(values, SA) else np_array(values if isinstance(values, (list, tuple)) else [values])
    return np_concatenate([a, v])


def np_outer(a, b):
    a, b = _wrap(a), _wrap(b)
    return SA(rnp.multiply.outer(a.ravel(), b.ravel()), "f")


def np_multiply(a, b, out=None):
    r = a * b
    if out is not None:
        out._inplace(r)
        return out
    return r


def np_add(a, b):
    return a + b


def np_around(x, decimals=0):
    if isinstance(x, SA):
        return x.round(decimals)
    return _rint(x)


def np_ndim(x):
    if isinstance(x, SA):
        return x.ndim
    if _is_scalar(x):
        return 0
    return rnp.ndim(x)


def np_size(x):
    if isinstance(x, SA):
        return x.size
    if _is_scalar(x):
        return 1
    return rnp.size(x)


def np_isscalar(x):
    return isinstance(x, (Sym, Fraction, DT, TD)) or rnp.isscalar(x)


# uninterpreted transcendental functions (axioms instantiated by the harness, see uf_axioms)
UF = {n: z3.Function(n, z3.RealSort(), z3.RealSort()) for n in ("sinh", "cosh", "tanh", "exp")}
UF_ARGS = {n: [] for n in UF}
_UF_AT0 = dict(sinh=0, tanh=0, cosh=1, exp=1)


def _uf1(name, x):
    if isinstance(x, _NaN):
        return x
    x = SN.real(x)
    c = x.const()
    if c is not None and c == 0:
        return SN(rv(_UF_AT0[name]))
    e = z3.simplify(x.e)
    if not any(e.eq(t) for t in UF_ARGS[name]):
        UF_ARGS[name].append(e)
    return SN(UF[name](e))


def _uf(name):
    def f(x):
        if isinstance(x, SA):
            return SA(_map(lambda v: _uf1(name, v), x.a), "f")
        return _uf1(name, x)

    return f


def uf_axioms():
    """finitely instantiated facts about sinh/cosh/tanh/exp over the argument terms that occurred.
    sinh: odd, strictly increasing, sign; tanh: odd, strictly increasing, |tanh|<1;
    cosh: even, >=1, strictly increasing on [0,inf) in |x|; exp: >0, strictly increasing, exp(0)=1."""
    ax = []
    zero = z3.RealVal(0)
    for name, args in UF_ARGS.items():
        f = UF[name]
        pts = list(args)
        for a in pts:
            if name in ("sinh", "tanh"):
                ax.append(f(-a) == -f(a))
                ax.append(z3.And(z3.Implies(a > 0, f(a) > 0), z3.Implies(a < 0, f(a) < 0), z3.Implies(a == 0, f(a) == 0)))
                if name == "tanh":
                    ax.append(z3.And(f(a) < 1, f(a) > -1))
                else:
                    # sinh(x) > x for x > 0 (and symmetric)
                    ax.append(z3.Implies(a > 0, f(a) > a))
                    ax.append(z3.Implies(a < 0, f(a) < a))
            if name == "cosh":
                ax.append(f(-a) == f(a))
                ax.append(z3.And(z3.Implies(a == 0, f(a) == 1), z3.Implies(a != 0, f(a) > 1)))
            if name == "exp":
                ax.append(f(a) > 0)
                ax.append(z3.And(z3.Implies(a == 0, f(a) == 1), z3.Implies(a > 0, f(a) > 1), z3.Implies(a < 0, f(a) < 1)))
        for a, b in itertools.combinations(pts, 2):
            if name in ("sinh", "tanh", "exp"):
                ax.append(z3.And(z3.Implies(a < b, f(a) < f(b)), z3.Implies(a > b, f(a) > f(b)), z3.Implies(a == b, f(a) == f(b))))
            else:  # cosh monotone in |x|
                aa, bb = z3.If(a >= 0, a, -a), z3.If(b >= 0, b, -b)
                ax.append(z3.And(z3.Implies(aa < bb, f(a) < f(b)), z3.Implies(aa > bb, f(a) > f(b)), z3.Implies(aa == bb, f(a) == f(b))))
    return ax


class RNG:
    """np.random.default_rng() stand-in: every draw is a fresh real variable; calls are logged.
    An unseeded generator is a stream of its own; generators created with the same explicit seed replay the same stream."""

    calls = []
    count = [0]

    def __init__(self, seed=None):
        self.seed = seed
        self.k = 0

    def normal(self, loc=0, scale=1, size=None):
        shape = None
        if isinstance(size, (tuple, list)):  # a shape: the draws fill the array in C order, as numpy's generator does
            shape = tuple(d.__index__() if is_sym(d) else int(d) for d in size)
            size = 1
            for d in shape:
                size *= d
        n = 1 if size is None else (size.__index__() if is_sym(size) else int(size))
        if self.seed is None:
            c = RNG.count[0]
            RNG.count[0] += 1
            names = [f"xi_{c}_{i}" for i in range(n)]
        else:
            c = f"s{self.seed}_{self.k}"
            self.k += 1
            names = [f"xi_{c}_{i}" for i in range(n)]
        xs = [SN(E.vars[nm]) if nm in E.vars else SN(E.fresh(nm, "real")) for nm in names]
        RNG.calls.append((c, n))
        r = SA(_to_obj(xs) if xs else rnp.empty((0,), dtype=object), "f")
        if scale != 1 or loc != 0:
            r = r * scale + loc
        if shape is not None:
            return r.reshape(shape)
        return r if size is not None else r.a[0]

    def standard_normal(self, size=None, dtype=None, out=None):
        if out is not None:
            r = self.normal(size=out.size)
            out._inplace(r.reshape(out.shape))
            return out
        return self.normal(size=size)


def _rng_reset():
    RNG.calls.clear()
    RNG.count[0] = 0


E.path_hooks.append(_rng_reset)


def _uf_reset():
    for v in UF_ARGS.values():
        v.clear()


E.path_hooks.append(_uf_reset)


class _DTypeProxy:
    """np.dtype(...) passes through to numpy; comparison with kinds of SA works via real dtypes"""

    def __call__(self, x):
        return rnp.dtype(x)


def np_flatnonzero(a):
    a = a if isinstance(a, SA) else SA(_to_obj(a))
    return SA(rnp.array([i for i, x in enumerate(a.a.ravel()) if bool(x if isinstance(x, (bool, rnp.bool_, SB)) else (x != 0))], dtype=object), "i")


def np_nonzero(a):
    a = a if isinstance(a, SA) else SA(_to_obj(a))
    return a.nonzero()


def np_argsort(a, axis=-1, kind=None, **kw):
    """indices that sort a 1-D sequence of integers (symbolic ones are decided by concretisation); always stable"""
    if kw:
        raise Unsupported(f"argsort({sorted(kw)})")
    vals = list(a.a.ravel()) if isinstance(a, SA) else list(a)
    keys = []
    for x in vals:
        if isinstance(x, (DT, TD)):
            x = x.sec
        if is_sym(x):
            if not getattr(x, "isint", False):
                raise Unsupported("argsort of symbolic reals")
            x = x.__index__()
        keys.append(x)
    return rnp.array(sorted(range(len(keys)), key=lambda i: keys[i]), dtype=int)


def _elementwise2(f):
    def g(a, b, out=None):
        aa, bb = _wrap(a), _wrap(b)
        if not isinstance(aa, rnp.ndarray) and not isinstance(bb, rnp.ndarray):
            return f(aa, bb)
        aa, bb = rnp.broadcast_arrays(aa if isinstance(aa, rnp.ndarray) else _scalar_box(aa) if not isinstance(aa, (int, bool, Fraction)) else rnp.asarray(aa, dtype=object),
                                      bb if isinstance(bb, rnp.ndarray) else _scalar_box(bb) if not isinstance(bb, (int, bool, Fraction)) else rnp.asarray(bb, dtype=object))
        r = SA(_map2(f, aa, bb))
        if out is not None:
            out._inplace(r)
            return out
        return r

    return g


def _map2(f, a, b):
    out = rnp.empty(a.shape, dtype=object)
    for idx in rnp.ndindex(a.shape):
        out[idx] = f(a[idx], b[idx])
    return out


def _min2(x, y):
    if is_sym(x) or is_sym(y):
        return s_min2(x, y)
    return builtins.min(x, y)


def _max2(x, y):
    if is_sym(x) or is_sym(y):
        return s_max2(x, y)
    return builtins.max(x, y)


def _elementwise1(f):
    def g(a):
        if isinstance(a, SA):
            return SA(_map(f, a.a))
        if hasattr(a, "to_numpy") or isinstance(a, (rnp.ndarray, list, tuple)):
            return SA(_map(f, SA(_to_obj(a) if isinstance(a, (list, tuple)) else a).a))
        return f(a)

    return g


def _floor1(x):
    if isinstance(x, SN):
        return SN.real(x.floor()) if not x.isint else x
    if isinstance(x, (int, rnp.integer)):
        return x
    return Q(math.floor(to_fraction(x)))


def _ceil1(x):
    if isinstance(x, SN):
        return -_floor1(-x)
    if isinstance(x, (int, rnp.integer)):
        return x
    return Q(math.ceil(to_fraction(x)))


def _sign1(x):
    if isinstance(x, SN):
        return ite(x > 0, 1, ite(x < 0, -1, 0))
    return (x > 0) - (x < 0)


def np_clip(a, lo, hi, out=None):
    r = _elementwise2(_min2)(_elementwise2(_max2)(a, lo), hi)
    if out is not None:
        out._inplace(r)
        return out
    return r


def np_cumsum(a):
    a = a if isinstance(a, SA) else SA(_to_obj(a))
    out, acc = [], 0
    for x in a.a.ravel():
        acc = acc + (SN.of(x) if isinstance(x, SB) else x)
        out.append(acc)
    return SA(_to_obj(out) if out else rnp.empty((0,), dtype=object))


def np_count_nonzero(a):
    return np_sum(SA(_map(lambda x: x if isinstance(x, (bool, rnp.bool_, SB)) else (x != 0), (a if isinstance(a, SA) else SA(_to_obj(a))).a), "b"))


def _not1(x):
    if isinstance(x, (bool, rnp.bool_)):
        return not x
    return ~SB.of(x)


class _NPModule(types.ModuleType):
    def __getattr__(self, name):
        if name.startswith("__"):
            raise AttributeError(name)
        if hasattr(rnp, name):
            raise Unsupported(f"numpy.{name} is not modelled by the symbolic numpy")
        raise AttributeError(f"module 'numpy' has no attribute {name!r}")


def np_pad(a, pad_width, mode="constant", **kw):
    """numpy.pad for the copying modes: the wrapped object array is padded by numpy itself (cells are copied, never computed with)"""
    if mode not in ("constant", "edge", "wrap", "reflect", "symmetric"):
        raise Unsupported(f"numpy.pad(mode={mode!r}) is not modelled by the symbolic numpy")
    arr = a if isinstance(a, SA) else np_array(a)
    if "constant_values" in kw:
        kw["constant_values"] = _wrap(kw["constant_values"]) if not isinstance(kw["constant_values"], (tuple, list)) else kw["constant_values"]
    return SA(rnp.pad(arr.a, pad_width, mode=mode, **kw), arr.kind)


def build_module():
    m = _NPModule("numpy")
    m.__sx__ = True
    m.ndarray = SA
    m.nan = NAN
    m.pi = Q(Fraction(repr(math.pi)))
    m.int64 = rnp.int64
    m.int32 = rnp.int32
    m.float64 = rnp.float64
    m.bool_ = rnp.bool_
    m.float32 = lambda x: x  # storage narrowing is outside every claim
    m.dtype = rnp.dtype
    m.array = np_array
    m.asarray = np_asarray
    m.zeros = np_zeros
    m.ones = np_ones
    m.empty = np_empty
    m.full = np_full
    m.zeros_like = np_zeros_like
    m.arange = np_arange
    m.linspace = np_linspace
    m.concatenate = np_concatenate
    m.searchsorted = np_searchsorted
    m.broadcast = _Bc
    m.broadcast_to = np_broadcast_to
    m.diff = np_diff
    m.any = np_any
    m.all = np_all
    m.sum = np_sum
    m.max = np_max
    m.min = np_min
    m.where = np_where
    m.stack = lambda seq, axis=0: SA(rnp.stack([x.a if isinstance(x, SA) else rnp.asarray(_wrap(x), dtype=object) for x in seq], axis=axis), next((x.kind for x in seq if isinstance(x, SA)), None))
    m.vstack = lambda seq: m.stack([x if (isinstance(x, SA) and x.ndim > 1) else x for x in seq], axis=0) if all(isinstance(x, SA) and x.ndim == 1 for x in seq) else np_concatenate(list(seq), axis=0)
    m.take = lambda a, idx, axis=None: (a if isinstance(a, SA) else np_array(a))[idx]
    m.compress = lambda cond, a, axis=None: (a if isinstance(a, SA) else np_array(a))[cond if isinstance(cond, SA) else np_array(cond)]
    m.extract = lambda cond, a: (a if isinstance(a, SA) else np_array(a))[cond if isinstance(cond, SA) else np_array(cond)]
    m.mean = lambda a, axis=None: np_sum(a, axis=axis) / (a.size if axis is None else a.shape[axis])
    m.sort = lambda a, axis=-1, kind=None: (a if isinstance(a, SA) else np_array(a))[np_argsort(a)]
    m.pad = np_pad
    m.copyto = np_copyto
    m.putmask = np_putmask
    m.append = np_append
    m.hstack = lambda seq: np_concatenate(list(seq))
    m.equal, m.not_equal = _elementwise2(lambda x, y: x == y), _elementwise2(lambda x, y: x != y)
    m.less, m.less_equal = _elementwise2(lambda x, y: x < y), _elementwise2(lambda x, y: x <= y)
    m.greater, m.greater_equal = _elementwise2(lambda x, y: x > y), _elementwise2(lambda x, y: x >= y)
    m.floor_divide = lambda a, b: a // b
    m.mod = m.remainder = lambda a, b: a % b
    m.square = lambda a: a * a
    m.asanyarray = m.ascontiguousarray = np_asarray
    m.outer = np_outer
    m.multiply = np_multiply
    m.add = np_add
    m.around = np_around
    m.ndim = np_ndim
    m.size = np_size
    m.isscalar = np_isscalar
    m.datetime64 = DT
    m.timedelta64 = TD
    m.sinh, m.cosh, m.tanh, m.exp = _uf("sinh"), _uf("cosh"), _uf("tanh"), _uf("exp")
    m.sqrt = lambda x: x ** Fraction(1, 2)
    m.random = types.SimpleNamespace(default_rng=lambda seed=None, *a, **k: RNG(seed))
    m.typing = types.SimpleNamespace(NDArray=_t.List, DTypeLike=_t.Any, ArrayLike=_t.Any)
    m.abs = m.absolute = _elementwise1(abs)
    m.flatnonzero = np_flatnonzero
    m.nonzero = np_nonzero
    m.minimum = _elementwise2(_min2)
    m.maximum = _elementwise2(_max2)
    m.logical_and = _elementwise2(_and)
    m.logical_or = _elementwise2(_or)
    m.logical_not = _elementwise1(_not1)
    m.clip = np_clip
    m.floor = _elementwise1(_floor1)
    m.ceil = _elementwise1(_ceil1)
    m.rint = m.round = np_around
    m.sign = _elementwise1(_sign1)
    m.cumsum = np_cumsum
    m.argsort = np_argsort
    m.count_nonzero = np_count_nonzero
    m.subtract = lambda a, b: a - b
    m.divide = m.true_divide = lambda a, b: a / b
    m.negative = lambda a: -a
    m.copy = lambda a: a.copy() if isinstance(a, SA) else a
    m.ravel = lambda a: a.ravel()
    m.ones_like = lambda x, dtype=None: np_full(x.shape, True if (isinstance(x, SA) and x.kind == "b") else 1, dtype)
    m.full_like = lambda x, v, dtype=None: np_full(x.shape, v, dtype)
    m.empty_like = np_zeros_like
    m.atleast_1d = lambda x: x if isinstance(x, SA) and x.ndim else np_array([x] if not isinstance(x, SA) else x.a.ravel().tolist())
    m.isnan = _elementwise1(lambda x: x is NAN)
    m.isfinite = _elementwise1(lambda x: x is not NAN)
    m.inf = None
    m.bool = bool
    m.newaxis = None
    m.integer = rnp.integer
    m.floating = rnp.floating
    m.number = rnp.number
    m.generic = rnp.generic
    m.errstate = rnp.errstate
    m.seterr = lambda **k: {}
    return m
